(* C15 - MIDI transport: proofs about Model/Relay.v (FIFO chains of process.go) and Model/Fanout.v (DynamicFanOut).
   Contents: relay FIFO invariant and monitor soundness; fan-out safety invariant [Inv] (preserved by all 17 labels),
   [fanout_segment], [independent]; liveness of DespawnOutput for the fixed algorithm ([measure_decreases], [progress],
   [despawn_completes]); the D16 witness for the repository's algorithm ([despawn_stuck_refuted]); the ghost stream
   positions [PInv] and the soundness of the fan-out monitor of Run/TransportRun.v ([fanout_monitor_sound]). *)
From Coq Require Import List Arith Bool Lia NArith.
From HIDI Require Import Model.Relay Model.Fanout Run.TransportRun.
Import ListNotations.

(* ================================================================ relay *)
Section PipeProofs.
  Context {T : Type}.

  Lemma move_concat caps (st st' : list (list T)) k : move caps st k = Some st' -> concat st' = concat st.
  Proof.
    revert caps st' k. induction st as [|a tl IH]; intros caps st' k H; cbn -[Nat.ltb] in H; [discriminate|].
    destruct tl as [|b r]; [discriminate|]. destruct caps as [|ca ctl]; [discriminate|].
    destruct k as [|k'].
    - destruct b as [|x b']; [discriminate|]. destruct (length a <? ca); [|discriminate].
      injection H as <-. cbn. rewrite <- !app_assoc. reflexivity.
    - destruct (move ctl (b :: r) k') as [st1|] eqn:E; [|discriminate]. cbn in H. injection H as <-.
      cbn. f_equal. apply (IH _ _ _ E).
  Qed.

  Lemma enter_concat caps (st st' : list (list T)) x : enter caps st x = Some st' -> concat st' = concat st ++ [x].
  Proof.
    revert caps st'. induction st as [|a tl IH]; intros caps st' H; cbn -[Nat.ltb] in H; [discriminate|].
    destruct tl as [|b r].
    - destruct caps as [|ca ctl]; [discriminate|]. destruct (length a <? ca); [|discriminate].
      injection H as <-. cbn. rewrite !app_nil_r. reflexivity.
    - destruct caps as [|ca ctl]; [discriminate|].
      destruct (enter ctl (b :: r) x) as [st1|] eqn:E; [|discriminate]. cbn in H. injection H as <-.
      change (concat (a :: st1)) with (a ++ concat st1). rewrite (IH _ _ E). cbn. rewrite !app_assoc. reflexivity.
  Qed.

  (* one step: the sequence "delivered, then in flight" only grows, at its end, by what enters *)
  Lemma pstep_seq caps (s s' : @pstate T) (l : @plabel T) : pstep caps s l = Some s' ->
    delivered s' ++ in_flight s' = delivered s ++ in_flight s ++ match l with Enter x => [x] | _ => [] end.
  Proof.
    unfold in_flight. destruct l as [|k|x]; cbn; intro H.
    - destruct (stages s) as [|[|x a] r] eqn:E; try discriminate. injection H as <-. cbn.
      rewrite app_nil_r, <- !app_assoc. reflexivity.
    - destruct (move caps (stages s) k) as [st|] eqn:E; [|discriminate]. injection H as <-. cbn.
      rewrite (move_concat _ _ _ _ E), app_nil_r. reflexivity.
    - destruct (enter caps (stages s) x) as [st|] eqn:E; [|discriminate]. injection H as <-. cbn.
      rewrite (enter_concat _ _ _ _ E). reflexivity.
  Qed.
End PipeProofs.

Lemma list_eqb_refl {A : Type} (eqb : A -> A -> bool) (l : list A) :
  (forall x, In x l -> eqb x x = true) -> list_eqb eqb l l = true.
Proof.
  induction l as [|x r IH]; intro H; cbn; [reflexivity|].
  rewrite (H x (or_introl eq_refl)). apply IH. intros y Hy. apply H. right. exact Hy.
Qed.

Section OutProofs.
  Context {M : Type}.

  Definition oflow (s : @ostate M) : list (nat * M) := delivered (o_pipe s) ++ in_flight (o_pipe s).

  Lemma proj_app k (a b : list (nat * M)) : proj k (a ++ b) = proj k a ++ proj k b.
  Proof. unfold proj. rewrite filter_app, map_app. reflexivity. Qed.

  Definition oinv (s : @ostate M) : Prop :=
    oflow s = o_entered s /\ forall k, proj k (o_entered s) = o_sent s k.

  Lemma ostep_inv pcap ocap (s : @ostate M) l s' : ostep pcap ocap s l = Some s' -> oinv s -> oinv s'.
  Proof.
    unfold ostep, oinv, oflow. intros H [H1 H2].
    destruct (pstep (out_caps pcap ocap) (o_pipe s) l) as [p|] eqn:E; [|discriminate].
    apply pstep_seq in E. injection H as <-.
    destruct l as [|k|[k x]]; cbn [o_pipe o_entered o_sent].
    - rewrite E, app_nil_r. split; assumption.
    - rewrite E, app_nil_r. split; assumption.
    - rewrite E, app_assoc, H1. split; [reflexivity|].
      intro j. rewrite proj_app, H2. unfold proj. cbn. rewrite (Nat.eqb_sym k j).
      destruct (j =? k); cbn; [reflexivity|apply app_nil_r].
  Qed.

  Lemma oinv_reachable pcap ocap (s : @ostate M) : reachable (ostep pcap ocap) oinit s -> oinv s.
  Proof.
    induction 1 as [|s l s' _ IH H]; [|exact (ostep_inv _ _ _ _ _ H IH)].
    split; [reflexivity|]. intro k. reflexivity.
  Qed.

  (* C15_relay_fifo *)
  Lemma relay_fifo pcap ocap (s : @ostate M) : reachable (ostep pcap ocap) oinit s ->
    delivered (o_pipe s) ++ in_flight (o_pipe s) = o_entered s /\
    forall k, proj k (delivered (o_pipe s) ++ in_flight (o_pipe s)) = o_sent s k.
  Proof.
    intro R. destruct (oinv_reachable _ _ _ R) as [H1 H2]. unfold oflow in H1. split; [exact H1|].
    intro k. rewrite H1. apply H2.
  Qed.

  (* only what was emitted is ever in the pipe, and only Enter changes the ghost logs *)
  Lemma filter_tag k (l : list (nat * M)) : filter (fun m => fst m =? k) l = map (pair k) (proj k l).
  Proof.
    unfold proj. induction l as [|[j x] r IH]; cbn; [reflexivity|].
    destruct (j =? k) eqn:E; cbn; [|exact IH]. apply Nat.eqb_eq in E. subst j. f_equal. exact IH.
  Qed.

  Lemma relay_monitor_sound pcap ocap n (eqb : M -> M -> bool) (s : @ostate M) :
    (forall x, eqb x x = true) ->
    reachable (ostep pcap ocap) oinit s -> in_flight (o_pipe s) = [] ->
    (forall p, In p (o_entered s) -> fst p < n) ->
    relay_accepts (fun a b => (fst a =? fst b) && eqb (snd a) (snd b)) fst
      (map (fun k => map (pair k) (o_sent s k)) (seq 0 n)) (delivered (o_pipe s)) = true.
  Proof.
    intros Hrefl R Hq Hn. destruct (relay_fifo _ _ _ R) as [H1 H2]. rewrite Hq, app_nil_r in H1, H2.
    unfold relay_accepts. rewrite map_length, seq_length. apply andb_true_intro. split.
    - apply forallb_forall. intros k Hk. apply in_seq in Hk. cbn in Hk.
      rewrite filter_tag, H2.
      replace (nth k (map (fun k0 => map (pair k0) (o_sent s k0)) (seq 0 n)) []) with (map (pair k) (o_sent s k)).
      + apply list_eqb_refl. intros [a b] _. cbn. rewrite Nat.eqb_refl, Hrefl. reflexivity.
      + set (f := fun k0 => map (pair k0) (o_sent s k0)).
        rewrite (nth_indep (map f (seq 0 n)) [] (f n)) by (rewrite map_length, seq_length; lia).
        rewrite map_nth, seq_nth by lia. reflexivity.
    - apply forallb_forall. intros p Hp. apply Nat.ltb_lt. apply Hn. rewrite <- H1. exact Hp.
  Qed.
End OutProofs.

Section InProofs.
  Context {M : Type}.

  Definition iinv (s : @istate M) : Prop := delivered (i_pipe s) ++ in_flight (i_pipe s) = i_arrived s.

  Lemma istep_inv icap rcap (s : @istate M) l s' : istep icap rcap s l = Some s' -> iinv s -> iinv s'.
  Proof.
    unfold istep, iinv. intros H H1.
    destruct (pstep (in_caps icap rcap) (i_pipe s) l) as [p|] eqn:E; [|discriminate].
    apply pstep_seq in E. injection H as <-. cbn [i_pipe i_arrived]. rewrite E, app_assoc, H1.
    destruct l; [apply app_nil_r|apply app_nil_r|reflexivity].
  Qed.

  Lemma in_fifo icap rcap (s : @istate M) : reachable (istep icap rcap) iinit s ->
    delivered (i_pipe s) ++ in_flight (i_pipe s) = i_arrived s.
  Proof. induction 1 as [|s l s' _ IH H]; [reflexivity|exact (istep_inv _ _ _ _ _ H IH)]. Qed.

  Lemma in_monitor_sound icap rcap (eqb : M -> M -> bool) (s : @istate M) :
    (forall x, eqb x x = true) -> reachable (istep icap rcap) iinit s -> in_flight (i_pipe s) = [] ->
    in_accepts eqb (i_arrived s) (delivered (i_pipe s)) = true.
  Proof.
    intros Hr R Hq. pose proof (in_fifo _ _ _ R) as H. rewrite Hq, app_nil_r in H. rewrite H.
    apply list_eqb_refl. intros x _. apply Hr.
  Qed.
End InProofs.


(* ================================================================ fan-out *)
Section FanHelpers.
  Context {T : Type}.
  Notation output := (@output T).

  Lemma mem_in i l : mem i l = true <-> In i l.
  Proof.
    unfold mem. rewrite existsb_exists. split.
    - intros [x [H1 H2]]. apply Nat.eqb_eq in H2. subst. exact H1.
    - intro H. exists i. split; [exact H|apply Nat.eqb_refl].
  Qed.

  Lemma mem_false i l : mem i l = false <-> ~ In i l.
  Proof.
    split.
    - intros H Hin. apply mem_in in Hin. congruence.
    - intro H. destruct (mem i l) eqn:E; [apply mem_in in E; contradiction|reflexivity].
  Qed.

  Lemma in_rem_id j i l : In j (rem_id i l) <-> In j l /\ j <> i.
  Proof.
    unfold rem_id. rewrite filter_In. split; intros [H1 H2]; (split; [exact H1|]).
    - intros ->. rewrite Nat.eqb_refl in H2. discriminate.
    - apply Nat.eqb_neq in H2. rewrite H2. reflexivity.
  Qed.

  Lemma mem_rem_id_other j i l : j <> i -> mem j (rem_id i l) = mem j l.
  Proof.
    intro H. destruct (mem j l) eqn:E.
    - apply mem_in. apply in_rem_id. split; [apply mem_in; exact E|exact H].
    - apply mem_false. intro H1. apply in_rem_id in H1. apply mem_false in E. tauto.
  Qed.

  Lemma mem_rem_id_same i l : mem i (rem_id i l) = false.
  Proof. apply mem_false. intro H. apply in_rem_id in H. tauto. Qed.

  Lemma nodup_rem_id i l : NoDup l -> NoDup (rem_id i l).
  Proof. apply NoDup_filter. Qed.

  Lemma filter_length_le' {A : Type} (f : A -> bool) (l : list A) : length (filter f l) <= length l.
  Proof. induction l as [|x r IH]; cbn; [lia|]. destruct (f x); cbn; lia. Qed.

  Lemma rem_id_length_lt i l : In i l -> length (rem_id i l) < length l.
  Proof.
    unfold rem_id. induction l as [|x r IH]; cbn [In filter length]; [tauto|]. intros [->|H].
    - rewrite Nat.eqb_refl. cbn [negb]. pose proof (filter_length_le' (fun j => negb (j =? i)) r). lia.
    - specialize (IH H). destruct (negb (x =? i)); cbn [length]; lia.
  Qed.

  Lemma NoDup_app_singleton {A : Type} (l : list A) x : NoDup l -> ~ In x l -> NoDup (l ++ [x]).
  Proof.
    induction l as [|y r IH]; cbn; intros Hn Hx; [constructor; [tauto|constructor]|].
    inversion Hn as [|? ? Hy Hr]; subst. constructor.
    - intro H. apply in_app_or in H. destruct H as [H|[H|[]]]; [tauto|subst; tauto].
    - apply IH; tauto.
  Qed.

  Lemma get_out_in i (os : list output) o : get_out i os = Some o -> In o os /\ c_id o = i.
  Proof.
    unfold get_out. intro H. apply find_some in H. destruct H as [H1 H2]. apply Nat.eqb_eq in H2. tauto.
  Qed.

  Lemma get_out_none i (os : list output) : get_out i os = None <-> ~ In i (ids os).
  Proof.
    unfold get_out, ids. split.
    - intros H Hin. apply in_map_iff in Hin. destruct Hin as [o [H1 H2]].
      pose proof (find_none _ _ H o H2) as H3. cbn in H3. rewrite H1, Nat.eqb_refl in H3. discriminate.
    - intro H. destruct (find _ os) as [o|] eqn:E; [|reflexivity]. apply find_some in E. destruct E as [E1 E2].
      apply Nat.eqb_eq in E2. exfalso. apply H. apply in_map_iff. exists o. tauto.
  Qed.

  Lemma in_get_out (os : list output) o : NoDup (ids os) -> In o os -> get_out (c_id o) os = Some o.
  Proof.
    unfold get_out, ids. induction os as [|x r IH]; cbn; [tauto|]. intros Hn [->|H].
    - rewrite Nat.eqb_refl. reflexivity.
    - inversion Hn as [|? ? Hx Hr]; subst. destruct (c_id x =? c_id o) eqn:E; [|apply IH; assumption].
      apply Nat.eqb_eq in E. exfalso. apply Hx. rewrite E. apply in_map. exact H.
  Qed.

  Lemma get_out_some_ids i (os : list output) o : get_out i os = Some o -> In i (ids os).
  Proof. intro H. apply get_out_in in H. destruct H as [H1 <-]. apply in_map. exact H1. Qed.

  Lemma ids_upd_out i f (os : list output) : (forall o, c_id (f o) = c_id o) -> ids (upd_out i f os) = ids os.
  Proof.
    intro Hf. unfold ids, upd_out. rewrite map_map. apply map_ext. intro o. destruct (c_id o =? i); [apply Hf|reflexivity].
  Qed.

  Lemma in_upd_out i f (os : list output) o' : In o' (upd_out i f os) ->
    exists o, In o os /\ ((c_id o = i /\ o' = f o) \/ (c_id o <> i /\ o' = o)).
  Proof.
    unfold upd_out. intro H. apply in_map_iff in H. destruct H as [o [H1 H2]]. exists o. split; [exact H2|].
    destruct (c_id o =? i) eqn:E; [apply Nat.eqb_eq in E; left|apply Nat.eqb_neq in E; right]; split; auto.
  Qed.

  Lemma get_upd_out_same i f (os : list output) o : (forall o, c_id (f o) = c_id o) ->
    get_out i os = Some o -> get_out i (upd_out i f os) = Some (f o).
  Proof.
    intro Hf. unfold get_out, upd_out. induction os as [|x r IH]; cbn; [discriminate|].
    destruct (c_id x =? i) eqn:E.
    - intro H. injection H as ->. rewrite Hf, E. reflexivity.
    - rewrite E. exact IH.
  Qed.

  Lemma get_upd_out_other i j f (os : list output) : (forall o, c_id (f o) = c_id o) -> j <> i ->
    get_out j (upd_out i f os) = get_out j os.
  Proof.
    intros Hf Hne. unfold get_out, upd_out. induction os as [|x r IH]; cbn; [reflexivity|].
    destruct (c_id x =? i) eqn:E.
    - rewrite Hf. apply Nat.eqb_eq in E. rewrite E. destruct (i =? j) eqn:E2; [apply Nat.eqb_eq in E2; congruence|exact IH].
    - rewrite IH. reflexivity.
  Qed.

  Lemma in_del_out i (os : list output) o : In o (del_out i os) <-> In o os /\ c_id o <> i.
  Proof.
    unfold del_out. rewrite filter_In. split; intros [H1 H2]; (split; [exact H1|]).
    - intro H. rewrite H, Nat.eqb_refl in H2. discriminate.
    - apply Nat.eqb_neq in H2. rewrite H2. reflexivity.
  Qed.

  Lemma in_ids_del_out i j (os : list output) : In j (ids (del_out i os)) <-> In j (ids os) /\ j <> i.
  Proof.
    unfold ids. rewrite !in_map_iff. split.
    - intros [o [H1 H2]]. apply in_del_out in H2. destruct H2 as [H2 H3]. split; [exists o; tauto|congruence].
    - intros [[o [H1 H2]] H3]. exists o. split; [exact H1|]. apply in_del_out. split; [exact H2|congruence].
  Qed.

  Lemma nodup_ids_del_out i (os : list output) : NoDup (ids os) -> NoDup (ids (del_out i os)).
  Proof.
    unfold ids, del_out. induction os as [|x r IH]; cbn; [auto|]. intro H. inversion H as [|? ? Hx Hr]; subst.
    destruct (negb (c_id x =? i)); [|apply IH; exact Hr]. cbn. constructor; [|apply IH; exact Hr].
    intro Hin. apply Hx. apply in_map_iff in Hin. destruct Hin as [o [H1 H2]]. apply filter_In in H2.
    apply in_map_iff. exists o. tauto.
  Qed.

  Lemma get_del_out_other i j (os : list output) : j <> i -> get_out j (del_out i os) = get_out j os.
  Proof.
    intro Hne. unfold get_out, del_out. induction os as [|x r IH]; cbn; [reflexivity|].
    destruct (c_id x =? i) eqn:E; cbn.
    - apply Nat.eqb_eq in E. rewrite E. destruct (i =? j) eqn:E2; [apply Nat.eqb_eq in E2; congruence|exact IH].
    - rewrite IH. reflexivity.
  Qed.

  Lemma find_app' {A : Type} (f : A -> bool) (l1 l2 : list A) :
    find f (l1 ++ l2) = match find f l1 with Some x => Some x | None => find f l2 end.
  Proof. induction l1 as [|x r IH]; cbn; [reflexivity|]. destruct (f x); [reflexivity|exact IH]. Qed.

  Lemma get_out_app i (os : list output) o : ~ In i (ids os) -> get_out i (os ++ [o]) = if c_id o =? i then Some o else None.
  Proof.
    intro H. unfold get_out. rewrite find_app'. apply get_out_none in H. unfold get_out in H. rewrite H. reflexivity.
  Qed.

  Lemma get_out_app_other i (os : list output) o : c_id o <> i -> get_out i (os ++ [o]) = get_out i os.
  Proof.
    intro H. unfold get_out. rewrite find_app'. destruct (find _ os); [reflexivity|]. cbn.
    apply Nat.eqb_neq in H. rewrite H. reflexivity.
  Qed.
End FanHelpers.

Section DsHelpers.
  Context {T : Type}.
  Notation dcall := (@dcall T).

  Lemma get_ds_in i (l : list dcall) d : get_ds i l = Some d -> In d l /\ d_id d = i.
  Proof. unfold get_ds. intro H. apply find_some in H. destruct H as [H1 H2]. apply Nat.eqb_eq in H2. tauto. Qed.

  Lemma get_ds_none i (l : list dcall) : get_ds i l = None <-> ~ In i (map d_id l).
  Proof.
    unfold get_ds. split.
    - intros H Hin. apply in_map_iff in Hin. destruct Hin as [o [H1 H2]].
      pose proof (find_none _ _ H o H2) as H3. cbn in H3. rewrite H1, Nat.eqb_refl in H3. discriminate.
    - intro H. destruct (find _ l) as [o|] eqn:E; [|reflexivity]. apply find_some in E. destruct E as [E1 E2].
      apply Nat.eqb_eq in E2. exfalso. apply H. apply in_map_iff. exists o. tauto.
  Qed.

  Lemma in_get_ds (l : list dcall) d : NoDup (map d_id l) -> In d l -> get_ds (d_id d) l = Some d.
  Proof.
    unfold get_ds. induction l as [|x r IH]; cbn; [tauto|]. intros Hn [->|H].
    - rewrite Nat.eqb_refl. reflexivity.
    - inversion Hn as [|? ? Hx Hr]; subst. destruct (d_id x =? d_id d) eqn:E; [|apply IH; assumption].
      apply Nat.eqb_eq in E. exfalso. apply Hx. rewrite E. apply in_map. exact H.
  Qed.

  Lemma ids_set_ds i p (l : list dcall) : map d_id (set_ds i p l) = map d_id l.
  Proof. unfold set_ds. rewrite map_map. apply map_ext. intro d. destruct (d_id d =? i); reflexivity. Qed.

  Lemma in_set_ds i p (l : list dcall) d' : In d' (set_ds i p l) ->
    exists d, In d l /\ ((d_id d = i /\ d' = mkDs i p (d_call d)) \/ (d_id d <> i /\ d' = d)).
  Proof.
    unfold set_ds. intro H. apply in_map_iff in H. destruct H as [d [H1 H2]]. exists d. split; [exact H2|].
    destruct (d_id d =? i) eqn:E; [apply Nat.eqb_eq in E; left; subst; auto|apply Nat.eqb_neq in E; right; auto].
  Qed.

  Lemma in_set_ds_intro i p (l : list dcall) d : In d l -> d_id d <> i -> In d (set_ds i p l).
  Proof.
    intros H Hne. unfold set_ds. apply in_map_iff. exists d. apply Nat.eqb_neq in Hne. rewrite Hne. auto.
  Qed.

  Lemma in_set_ds_same i p (l : list dcall) d : In d l -> d_id d = i -> In (mkDs i p (d_call d)) (set_ds i p l).
  Proof.
    intros H He. unfold set_ds. apply in_map_iff. exists d. rewrite He, Nat.eqb_refl. auto.
  Qed.

  Lemma in_del_ds i (l : list dcall) d : In d (del_ds i l) <-> In d l /\ d_id d <> i.
  Proof.
    unfold del_ds. rewrite filter_In. split; intros [H1 H2]; (split; [exact H1|]).
    - intro H. rewrite H, Nat.eqb_refl in H2. discriminate.
    - apply Nat.eqb_neq in H2. rewrite H2. reflexivity.
  Qed.

  Lemma nodup_del_ds i (l : list dcall) : NoDup (map d_id l) -> NoDup (map d_id (del_ds i l)).
  Proof.
    unfold del_ds. induction l as [|x r IH]; cbn; [auto|]. intro H. inversion H as [|? ? Hx Hr]; subst.
    destruct (negb (d_id x =? i)); [|apply IH; exact Hr]. cbn. constructor; [|apply IH; exact Hr].
    intro Hin. apply Hx. apply in_map_iff in Hin. destruct Hin as [o [H1 H2]]. apply filter_In in H2.
    apply in_map_iff. exists o. tauto.
  Qed.

  Lemma nodup_same_id (l : list dcall) d1 d2 : NoDup (map d_id l) -> In d1 l -> In d2 l -> d_id d1 = d_id d2 -> d1 = d2.
  Proof.
    intros Hn H1 H2 He. pose proof (in_get_ds _ _ Hn H1) as G1. pose proof (in_get_ds _ _ Hn H2) as G2.
    rewrite He in G1. congruence.
  Qed.
End DsHelpers.

Lemma nodup_same_out {T : Type} (os : list (@output T)) o1 o2 :
  NoDup (ids os) -> In o1 os -> In o2 os -> c_id o1 = c_id o2 -> o1 = o2.
Proof.
  intros Hn H1 H2 He. pose proof (in_get_out _ _ Hn H1) as G1. pose proof (in_get_out _ _ Hn H2) as G2.
  rewrite He in G1. congruence.
Qed.

Section FanInv.
  Context {T : Type}.
  Variable fixed : bool.
  Variable icap : nat.
  Notation state := (@state T).
  Notation output := (@output T).
  Notation step := (@step T fixed icap).

  Definition rem_of (p : @runpc T) : option (T * list nat) :=
    match p with Locked e rem | Sending e rem _ => Some (e, rem) | _ => None end.

  Definition seg_exact (s : state) (o : output) : Prop := hist s = c_pre o ++ sent o ++ pending s (c_id o).
  Definition seg_prefix (h : list T) (o : output) : Prop := exists rest, h = c_pre o ++ sent o ++ rest.

  (* a removed output: it got a prefix of its segment [|pre|, b) - all of it unless it was skipped (fixed algorithm only) *)
  Definition gone_ok (h : list T) (o : output) (b : nat) : Prop :=
    seg_prefix h o /\ length (c_pre o ++ sent o) <= b /\ b <= length h /\
    (c_skipped o = false -> length (c_pre o ++ sent o) = b) /\ (c_skipped o = true -> fixed = true).

  Definition holds (p : @dspc T) : bool := match p with DsLocked | DsRemoved _ _ _ => true | _ => false end.

  Definition ds_ok (s : state) (d : @dcall T) : Prop :=
    (if holds (d_pc d) then own s = ODespawn (d_id d) else own s <> ODespawn (d_id d)) /\
    match d_pc d with
    | DsCalled => get_out (d_id d) (outs s) <> None
    | DsMarked | DsLocked =>
        get_out (d_id d) (outs s) <> None /\
        (fixed = true -> forall o, get_out (d_id d) (outs s) = Some o -> c_leaving o = true)
    | DsRemoved o b _ => gone_ok (hist s) o b
    end.

  Record Inv (s : state) : Prop := mkInv {
    I_nodup : NoDup (ids (outs s));
    I_own : match pc s with Locked _ _ | Sending _ _ _ => own s = ORun | _ => own s <> ORun end;
    I_rem : forall e rem, rem_of (pc s) = Some (e, rem) ->
            NoDup rem /\ (forall j, In j rem -> In j (ids (outs s))) /\ exists h, hist s = h ++ [e];
    I_sending : forall e rem i, pc s = Sending e rem i ->
                In i rem /\ forall o, get_out i (outs s) = Some o -> c_skipped o = false;
    I_seg : forall o, In o (outs s) ->
            if c_skipped o then c_leaving o = true /\ seg_prefix (hist s) o else seg_exact s o;
    I_cap : forall o, In o (outs s) -> length (c_q o) <= icap;
    I_leaving : forall o, In o (outs s) -> c_leaving o = true ->
                fixed = true /\ exists d, In d (ds s) /\ d_id d = c_id o /\ (d_pc d = DsMarked \/ d_pc d = DsLocked);
    I_gone : forall g, In g (gone s) -> gone_ok (hist s) (g_out g) (g_b g);
    I_ds_nodup : NoDup (map d_id (ds s));
    I_ds : forall d, In d (ds s) -> ds_ok s d;
    I_own_ds : forall i, own s = ODespawn i -> exists d, In d (ds s) /\ d_id d = i /\ holds (d_pc d) = true
  }.

  Lemma inv_init : Inv init.
  Proof.
    constructor; cbn; try tauto; try discriminate; try constructor.
  Qed.

  Lemma pending_unlocked (s : state) i : rem_of (pc s) = None -> pending s i = [].
  Proof. unfold pending. destruct (pc s); cbn; intro H; try discriminate; reflexivity. Qed.

  Lemma gone_ok_ext h o b x : gone_ok h o b -> gone_ok (h ++ [x]) o b.
  Proof.
    intros [[rest H1] [H2 [H3 [H4 H5]]]]. repeat split; auto.
    - exists (rest ++ [x]). rewrite H1. rewrite <- !app_assoc. reflexivity.
    - rewrite app_length. lia.
  Qed.

  Lemma seg_prefix_ext h o x : seg_prefix h o -> seg_prefix (h ++ [x]) o.
  Proof. intros [rest H1]. exists (rest ++ [x]). rewrite H1. rewrite <- !app_assoc. reflexivity. Qed.

  Lemma not_locked_of_own (s : state) : Inv s -> own s <> ORun -> rem_of (pc s) = None.
  Proof. intros I H. pose proof (I_own s I) as H1. destruct (pc s); cbn; try reflexivity; contradiction. Qed.

  (* ---- preservation, label by label *)
  Lemma ds_ok_frame (s s' : state) d :
    outs s' = outs s -> hist s' = hist s ->
    (own s' = own s \/ (forall i, own s <> ODespawn i) /\ (forall i, own s' <> ODespawn i)) ->
    ds_ok s d -> ds_ok s' d.
  Proof.
    intros Ho Hh Hw [H1 H2]. unfold ds_ok. rewrite Ho, Hh. split; [|exact H2].
    destruct Hw as [Hw|[Hw1 Hw2]]; [rewrite Hw; exact H1|].
    destruct (holds (d_pc d)); [exfalso; exact (Hw1 _ H1)|apply Hw2].
  Qed.

  Lemma inv_RunTake s s' : Inv s -> step s RunTake = Some s' -> Inv s'.
  Proof.
    intros I H. cbn in H. destruct (pc s) eqn:Epc; try discriminate. destruct (inq s) as [|e r] eqn:Eq; [discriminate|].
    injection H as <-. pose proof (I_own s I) as Ow. rewrite Epc in Ow.
    constructor; cbn.
    - apply I.
    - exact Ow.
    - discriminate.
    - discriminate.
    - intros o Ho. pose proof (I_seg s I o Ho) as H. unfold seg_exact, pending in *. rewrite Epc in H. exact H.
    - apply I.
    - apply I.
    - apply I.
    - apply I.
    - intros d Hd. apply (ds_ok_frame s); auto. apply I. exact Hd.
    - apply I.
  Qed.

  Lemma mem_ids_in (os : list output) o : In o os -> mem (c_id o) (ids os) = true.
  Proof. intro H. apply mem_in. apply in_map. exact H. Qed.

  Lemma inv_RunLock s s' : Inv s -> step s RunLock = Some s' -> Inv s'.
  Proof.
    intros I H. cbn in H. destruct (pc s) eqn:Epc; try discriminate. destruct (own s) eqn:Eo; try discriminate.
    injection H as <-.
    constructor; cbn.
    - apply I.
    - reflexivity.
    - intros e0 rem H. injection H as <- <-. split; [apply I|]. split; [auto|]. exists (hist s). reflexivity.
    - discriminate.
    - intros o Ho. pose proof (I_seg s I o Ho) as H. destruct (c_skipped o).
      + destruct H as [H1 H2]. split; [exact H1|apply seg_prefix_ext; exact H2].
      + unfold seg_exact, pending in *. cbn. rewrite Epc in H. rewrite (mem_ids_in _ _ Ho), H.
        rewrite !app_nil_r, <- !app_assoc. reflexivity.
    - apply I.
    - apply I.
    - intros g Hg. apply gone_ok_ext. apply I. exact Hg.
    - apply I.
    - intros d Hd. destruct (I_ds s I d Hd) as [H1 H2]. split; cbn.
      + rewrite Eo in H1. destruct (holds (d_pc d)); [discriminate|discriminate].
      + destruct (d_pc d); auto. apply gone_ok_ext. exact H2.
    - discriminate.
  Qed.

  Lemma inv_RunUnlock s s' : Inv s -> step s RunUnlock = Some s' -> Inv s'.
  Proof.
    intros I H. cbn in H. destruct (pc s) as [| |e rem|] eqn:Epc; try discriminate. destruct rem; [|discriminate].
    injection H as <-. pose proof (I_own s I) as Ow. rewrite Epc in Ow.
    constructor; cbn.
    - apply I.
    - discriminate.
    - discriminate.
    - discriminate.
    - intros o Ho. pose proof (I_seg s I o Ho) as H. unfold seg_exact, pending in *. rewrite Epc in H. exact H.
    - apply I.
    - apply I.
    - apply I.
    - apply I.
    - intros d Hd. apply (ds_ok_frame s); auto; [|apply I; exact Hd]. cbn. right. rewrite Ow. split; discriminate.
    - discriminate.
  Qed.

  Lemma inv_Produce s s' x : Inv s -> step s (Produce x) = Some s' -> Inv s'.
  Proof.
    intros I H. unfold Fanout.step in H. destruct (length (inq s) <? icap); [|discriminate]. injection H as <-.
    destruct I. constructor; cbn; auto.
  Qed.

  Lemma inv_CallSpawn s s' : Inv s -> step s CallSpawn = Some s' -> Inv s'.
  Proof. intros I H. cbn in H. injection H as <-. destruct I. constructor; cbn; auto. Qed.

  Lemma inv_SpawnAcquire s s' p : Inv s -> step s (SpawnAcquire p) = Some s' -> Inv s'.
  Proof.
    intros I H. cbn in H. destruct (own s) eqn:Eo; try discriminate. destruct (mem p (sp_wait s)); [|discriminate].
    injection H as <-. pose proof (I_own s I) as Ow. rewrite Eo in Ow.
    constructor; cbn; try apply I.
    - destruct (pc s); try discriminate.
    - intros d Hd. apply (ds_ok_frame s); auto; [|apply I; exact Hd]. cbn. right. rewrite Eo. split; discriminate.
    - discriminate.
  Qed.

  Lemma inv_SpawnRelease s s' : Inv s -> step s SpawnRelease = Some s' -> Inv s'.
  Proof.
    intros I H. cbn in H. destruct (own s) as [| |p [i|]|] eqn:Eo; try discriminate.
    injection H as <-. pose proof (I_own s I) as Ow. rewrite Eo in Ow.
    constructor; cbn; try apply I.
    - destruct (pc s); try discriminate.
    - intros d Hd. apply (ds_ok_frame s); auto; [|apply I; exact Hd]. cbn. right. rewrite Eo. split; discriminate.
    - discriminate.
  Qed.

  Lemma get_upd_out i j f (os : list output) : (forall o, c_id (f o) = c_id o) ->
    get_out j (upd_out i f os) = match get_out j os with Some o => Some (if j =? i then f o else o) | None => None end.
  Proof.
    intro Hf. destruct (Nat.eq_dec j i) as [->|Hne].
    - rewrite Nat.eqb_refl. destruct (get_out i os) as [o|] eqn:E.
      + apply get_upd_out_same; assumption.
      + apply (proj2 (get_out_none _ _)). rewrite ids_upd_out by exact Hf. apply (proj1 (get_out_none _ _)). exact E.
    - rewrite get_upd_out_other by assumption. apply Nat.eqb_neq in Hne. rewrite Hne. destruct (get_out j os); reflexivity.
  Qed.

  Lemma ds_ok_upd (s s' : state) i f d :
    (forall o, c_id (f o) = c_id o) -> (forall o, c_leaving (f o) = c_leaving o) ->
    outs s' = upd_out i f (outs s) -> own s' = own s -> hist s' = hist s -> ds_ok s d -> ds_ok s' d.
  Proof.
    intros Hf Hl Ho Hw Hh [H1 H2]. unfold ds_ok. rewrite Ho, Hw, Hh. split; [exact H1|].
    assert (G : forall j, get_out j (upd_out i f (outs s)) <> None <-> get_out j (outs s) <> None).
    { intro j. rewrite get_upd_out by exact Hf. destruct (get_out j (outs s)); split; congruence. }
    assert (L : forall j, (forall o, get_out j (outs s) = Some o -> c_leaving o = true) ->
                          forall o, get_out j (upd_out i f (outs s)) = Some o -> c_leaving o = true).
    { intros j H o. rewrite get_upd_out by exact Hf. destruct (get_out j (outs s)) as [o0|]; [|discriminate].
      intro E. injection E as <-. destruct (j =? i); [rewrite Hl|]; apply H; reflexivity. }
    destruct (d_pc d); [apply G; exact H2| | |exact H2]; (destruct H2 as [H2 H3]; split; [apply G; exact H2|]; intro Hx; apply L; apply H3; exact Hx).
  Qed.

  Lemma pending_locked (s : state) e rem j : rem_of (pc s) = Some (e, rem) -> pending s j = if mem j rem then [e] else [].
  Proof. unfold pending. destruct (pc s); cbn; intro H; try discriminate; injection H as <- <-; reflexivity. Qed.

  Lemma locked_own (s : state) e rem : Inv s -> rem_of (pc s) = Some (e, rem) -> own s = ORun.
  Proof. intros I H. pose proof (I_own s I) as Ow. destruct (pc s); cbn in H; try discriminate; exact Ow. Qed.

  (* run has served output i (sent, skipped or aborted) *)
  Lemma inv_serve s e rem i o f :
    Inv s -> rem_of (pc s) = Some (e, rem) -> In i rem -> get_out i (outs s) = Some o ->
    (forall o, c_id (f o) = c_id o) -> (forall o, c_leaving (f o) = c_leaving o) ->
    (if c_skipped (f o) then c_leaving o = true /\ seg_prefix (hist s) (f o) else hist s = c_pre (f o) ++ sent (f o)) ->
    length (c_q (f o)) <= icap ->
    Inv (mkSt (inq s) (Locked e (rem_id i rem)) (own s) (upd_out i f (outs s)) (sp_wait s) (ds s) (gone s) (hist s)).
  Proof.
    intros I Hpc Hi Hg Hf Hl Hseg Hcap.
    destruct (I_rem s I e rem Hpc) as [R1 [R2 R3]]. destruct (get_out_in _ _ _ Hg) as [Go Gi].
    constructor; cbn [inq pc own outs sp_wait ds gone hist].
    - rewrite ids_upd_out by exact Hf. apply I.
    - exact (locked_own s e rem I Hpc).
    - intros e0 rem0 H. injection H as <- <-. split; [apply nodup_rem_id; exact R1|]. split; [|exact R3].
      intros j Hj. apply in_rem_id in Hj. rewrite ids_upd_out by exact Hf. apply R2. tauto.
    - discriminate.
    - intros o' Ho'. apply in_upd_out in Ho'. destruct Ho' as [o0 [Ho0 [[Hid ->]|[Hid ->]]]].
      + assert (o0 = o) as -> by (apply (nodup_same_out (outs s)); try assumption; [apply I|congruence]).
        destruct (c_skipped (f o)).
        * rewrite Hl. exact Hseg.
        * unfold seg_exact, pending. cbn. rewrite Hf, Gi, mem_rem_id_same, app_nil_r. exact Hseg.
      + pose proof (I_seg s I o0 Ho0) as H. destruct (c_skipped o0); [exact H|].
        unfold seg_exact in *. rewrite (pending_locked s e rem _ Hpc) in H. unfold pending. cbn.
        rewrite mem_rem_id_other by exact Hid. exact H.
    - intros o' Ho'. apply in_upd_out in Ho'. destruct Ho' as [o0 [Ho0 [[Hid ->]|[Hid ->]]]].
      + assert (o0 = o) as -> by (apply (nodup_same_out (outs s)); try assumption; [apply I|congruence]). exact Hcap.
      + apply I. exact Ho0.
    - intros o' Ho' Hlv. apply in_upd_out in Ho'. destruct Ho' as [o0 [Ho0 [[Hid ->]|[Hid ->]]]].
      + rewrite Hl in Hlv. rewrite Hf. apply I; assumption.
      + apply I; assumption.
    - apply I.
    - apply I.
    - intros d Hd. apply (ds_ok_upd s _ i f); auto. apply I. exact Hd.
    - apply I.
  Qed.

  Lemma skipped_leaving s o : Inv s -> In o (outs s) -> c_skipped o = true -> c_leaving o = true /\ fixed = true.
  Proof.
    intros I Ho Hs. pose proof (I_seg s I o Ho) as H. rewrite Hs in H. destruct H as [H _]. split; [exact H|].
    apply (I_leaving s I o Ho H).
  Qed.

  Lemma serve_skip s e rem i o :
    Inv s -> rem_of (pc s) = Some (e, rem) -> In i rem -> get_out i (outs s) = Some o -> c_leaving o = true ->
    Inv (mkSt (inq s) (Locked e (rem_id i rem)) (own s) (upd_out i set_skipped (outs s)) (sp_wait s) (ds s) (gone s) (hist s)).
  Proof.
    intros I Hpc Hi Hg Hlv. apply inv_serve with (o := o); auto.
    - cbn. split; [exact Hlv|]. destruct (get_out_in _ _ _ Hg) as [Go Gi].
      pose proof (I_seg s I o Go) as H. unfold seg_prefix. cbn. change (c_read o ++ c_q o) with (sent o).
      destruct (c_skipped o); [apply H|]. exists (pending s (c_id o)). exact H.
    - cbn. apply I. apply (get_out_in _ _ _ Hg).
  Qed.

  Lemma inv_RunCheck s s' i : Inv s -> step s (RunCheck i) = Some s' -> Inv s'.
  Proof.
    intros I H. cbn in H. destruct (pc s) as [| |e rem|] eqn:Epc; try discriminate.
    destruct (mem i rem) eqn:Em; [|discriminate]. apply mem_in in Em.
    destruct (get_out i (outs s)) as [o|] eqn:Eg; [|discriminate].
    assert (Hpc : rem_of (pc s) = Some (e, rem)) by (rewrite Epc; reflexivity).
    destruct (fixed && c_leaving o) eqn:Ef; injection H as <-.
    - apply andb_prop in Ef. destruct Ef as [_ Ef]. apply serve_skip with (o := o); assumption.
    - pose proof (I_own s I) as Ow. rewrite Epc in Ow.
      constructor; cbn [inq pc own outs sp_wait ds gone hist]; try apply I.
      + exact Ow.
      + intros e0 rem0 H. injection H as <- <-. apply (I_rem s I). exact Hpc.
      + intros e0 rem0 i0 H. injection H as <- <- <-. split; [exact Em|]. intros o0 Ho0.
        assert (o0 = o) as -> by congruence.
        destruct (c_skipped o) eqn:Es; [|reflexivity]. exfalso.
        destruct (skipped_leaving s o I (proj1 (get_out_in _ _ _ Eg)) Es) as [H1 H2]. rewrite H1, H2 in Ef. discriminate.
      + intros o0 Ho0. pose proof (I_seg s I o0 Ho0) as H. destruct (c_skipped o0); [exact H|].
        unfold seg_exact, pending in *. cbn. rewrite Epc in H. exact H.
  Qed.

  Lemma inv_RunAbort s s' i : Inv s -> step s (RunAbort i) = Some s' -> Inv s'.
  Proof.
    intros I H. cbn in H. destruct (pc s) as [| | |e rem j] eqn:Epc; try discriminate.
    destruct ((i =? j) && fixed) eqn:Ef; [|discriminate]. apply andb_prop in Ef. destruct Ef as [Ef _].
    apply Nat.eqb_eq in Ef. subst j.
    destruct (get_out i (outs s)) as [o|] eqn:Eg; [|discriminate].
    destruct (c_leaving o) eqn:El; [|discriminate]. injection H as <-.
    apply serve_skip with (o := o); auto; [rewrite Epc; reflexivity|]. apply (I_sending s I e rem i Epc).
  Qed.

  Lemma inv_RunSend s s' i : Inv s -> step s (RunSend i) = Some s' -> Inv s'.
  Proof.
    intros I H. unfold Fanout.step in H. destruct (pc s) as [| | |e rem j] eqn:Epc; try discriminate.
    destruct (i =? j) eqn:Ef; [|discriminate]. apply Nat.eqb_eq in Ef. subst j.
    destruct (get_out i (outs s)) as [o|] eqn:Eg; [|discriminate].
    destruct (length (c_q o) <? icap) eqn:El; [|discriminate]. injection H as <-. apply Nat.ltb_lt in El.
    destruct (I_sending s I e rem i Epc) as [Hi Hs]. specialize (Hs o Eg).
    assert (Hpc : rem_of (pc s) = Some (e, rem)) by (rewrite Epc; reflexivity).
    apply inv_serve with (o := o); auto.
    - cbn. rewrite Hs. destruct (get_out_in _ _ _ Eg) as [Go Gi].
      pose proof (I_seg s I o Go) as H. rewrite Hs in H. unfold seg_exact in H.
      rewrite (pending_locked s e rem _ Hpc), Gi in H. apply mem_in in Hi. rewrite Hi in H.
      rewrite H. unfold sent. cbn. rewrite <- !app_assoc. reflexivity.
    - cbn. rewrite app_length. cbn. lia.
  Qed.

  Lemma inv_Read s s' i : Inv s -> step s (Read i) = Some s' -> Inv s'.
  Proof.
    intros I H. cbn in H. destruct (get_out i (outs s)) as [o|] eqn:Eg; [|discriminate].
    destruct (c_q o) as [|x r] eqn:Eq; [discriminate|]. injection H as <-.
    destruct (get_out_in _ _ _ Eg) as [Go Gi].
    assert (Hf : forall o0, c_id (do_read x r o0) = c_id o0) by reflexivity.
    assert (Hsent : sent (do_read x r o) = sent o).
    { unfold sent. cbn. rewrite Eq, <- app_assoc. reflexivity. }
    constructor; cbn [inq pc own outs sp_wait ds gone hist].
    - rewrite ids_upd_out by exact Hf. apply I.
    - apply I.
    - intros e rem H. rewrite ids_upd_out by exact Hf. apply (I_rem s I). exact H.
    - intros e rem j H. destruct (I_sending s I e rem j H) as [H1 H2]. split; [exact H1|].
      intros o0. rewrite get_upd_out by exact Hf. destruct (get_out j (outs s)) as [o1|] eqn:E1; [|discriminate].
      intro E. injection E as <-. destruct (j =? i); [cbn|]; apply H2; reflexivity.
    - intros o' Ho'. apply in_upd_out in Ho'. destruct Ho' as [o0 [Ho0 [[Hid ->]|[Hid ->]]]].
      + assert (o0 = o) as -> by (apply (nodup_same_out (outs s)); try assumption; [apply I|congruence]).
        pose proof (I_seg s I o Go) as H. change (c_skipped (do_read x r o)) with (c_skipped o).
        unfold seg_exact, seg_prefix, pending in *. rewrite Hsent. cbn. exact H.
      + pose proof (I_seg s I o0 Ho0) as H. unfold seg_exact, pending in *. cbn. exact H.
    - intros o' Ho'. apply in_upd_out in Ho'. destruct Ho' as [o0 [Ho0 [[Hid ->]|[Hid ->]]]].
      + assert (o0 = o) as -> by (apply (nodup_same_out (outs s)); try assumption; [apply I|congruence]).
        cbn. pose proof (I_cap s I o Go) as H. rewrite Eq in H. cbn in H. lia.
      + apply I. exact Ho0.
    - intros o' Ho' Hlv. apply in_upd_out in Ho'. destruct Ho' as [o0 [Ho0 [[Hid ->]|[Hid ->]]]].
      + cbn in *. apply I; assumption.
      + apply I; assumption.
    - apply I.
    - apply I.
    - intros d Hd. apply (ds_ok_upd s _ i (do_read x r)); auto. apply I. exact Hd.
    - apply I.
  Qed.

  Ltac simp_st := cbn [inq pc own outs sp_wait ds gone hist].

  Lemma inv_SpawnInsert s s' i : Inv s -> step s (SpawnInsert i) = Some s' -> Inv s'.
  Proof.
    intros I H. cbn in H. destruct (own s) as [| |p [j|]|] eqn:Eo; try discriminate.
    destruct (mem i (ids (outs s))) eqn:Em; [discriminate|]. apply mem_false in Em. injection H as <-.
    assert (Hnl : rem_of (pc s) = None) by (apply (not_locked_of_own s I); rewrite Eo; discriminate).
    set (new := mkOut i [] false false (hist s) [] p (produced s)).
    constructor; simp_st.
    - unfold ids. rewrite map_app. cbn. apply NoDup_app_singleton; [apply I|exact Em].
    - pose proof (I_own s I) as Ow. destruct (pc s); try discriminate.
    - intros e rem H. rewrite H in Hnl. discriminate.
    - intros e rem j H. rewrite H in Hnl. discriminate.
    - intros o Ho. apply in_app_or in Ho. destruct Ho as [Ho|[<-|[]]].
      + pose proof (I_seg s I o Ho) as H. destruct (c_skipped o); [exact H|].
        unfold seg_exact, pending in *. simp_st. exact H.
      + cbn [c_skipped new]. unfold seg_exact, pending; simp_st. destruct (pc s); cbn in Hnl; try discriminate; cbn; rewrite app_nil_r; reflexivity.
    - intros o Ho. apply in_app_or in Ho. destruct Ho as [Ho|[<-|[]]]; [apply I; exact Ho|cbn; lia].
    - intros o Ho Hlv. apply in_app_or in Ho. destruct Ho as [Ho|[<-|[]]]; [apply I; assumption|discriminate].
    - apply I.
    - apply I.
    - intros d Hd. destruct (I_ds s I d Hd) as [H1 H2]. split; simp_st.
      + rewrite Eo in H1. destruct (holds (d_pc d)); [discriminate|discriminate].
      + assert (G : forall j, get_out j (outs s) <> None -> get_out j (outs s ++ [new]) = get_out j (outs s)).
        { intros j Hj. unfold get_out. rewrite find_app'. fold (get_out j (outs s)). destruct (get_out j (outs s)); congruence. }
        destruct (d_pc d); [rewrite G; exact H2| | |exact H2]; (destruct H2 as [H2 H3]; rewrite G by exact H2; split; assumption).
    - discriminate.
  Qed.

  Lemma inv_CallDespawn s s' i : Inv s -> step s (CallDespawn i) = Some s' -> Inv s'.
  Proof.
    intros I H. cbn in H. destruct (get_out i (outs s)) as [o|] eqn:Eg; [|discriminate].
    destruct (get_ds i (ds s)) eqn:Ed; [discriminate|].
    assert (exists c, s' = mkSt (inq s) (pc s) (own s) (outs s) (sp_wait s) (mkDs i DsCalled c :: ds s) (gone s) (hist s)) as [c ->].
    { destruct (own s) as [| |p [j|]|]; try (injection H as <-; eexists; reflexivity).
      destruct (i =? j); [discriminate|]. injection H as <-; eexists; reflexivity. }
    clear H. pose proof (proj1 (get_ds_none _ _) Ed) as Hn.
    constructor; simp_st; try apply I.
    - intros o0 Ho0 Hlv. destruct (I_leaving s I o0 Ho0 Hlv) as [H1 [d [H2 H3]]]. split; [exact H1|].
      exists d. split; [right; exact H2|exact H3].
    - cbn. constructor; [exact Hn|apply I].
    - intros d [<-|Hd].
      + split; simp_st; cbn [d_pc d_id holds]; [|rewrite Eg; discriminate]. intro Ho. destruct (I_own_ds s I i Ho) as [d [H1 [H2 _]]].
        apply Hn. rewrite <- H2. apply in_map. exact H1.
      + apply (ds_ok_frame s); auto. apply I. exact Hd.
    - intros j Hj. destruct (I_own_ds s I j Hj) as [d [H1 H2]]. exists d. split; [right; exact H1|exact H2].
  Qed.

  Lemma inv_DespawnMark s s' i : Inv s -> step s (DespawnMark i) = Some s' -> Inv s'.
  Proof.
    intros I H. cbn in H. destruct (get_ds i (ds s)) as [[i0 [| | |] c]|] eqn:Ed; try discriminate. injection H as <-.
    destruct (get_ds_in _ _ _ Ed) as [Hd0 Hi0]. cbn in Hi0. subst i0.
    destruct (I_ds s I _ Hd0) as [D1 D2]. cbn in D1, D2.
    assert (Hf : forall o : output, c_id (set_leaving o) = c_id o) by reflexivity.
    assert (Hids : ids (if fixed then upd_out i set_leaving (outs s) else outs s) = ids (outs s)).
    { destruct fixed; [apply ids_upd_out; exact Hf|reflexivity]. }
    assert (Hin : forall o', In o' (if fixed then upd_out i set_leaving (outs s) else outs s) ->
                  exists o, In o (outs s) /\ c_id o' = c_id o /\ c_skipped o' = c_skipped o /\ c_pre o' = c_pre o /\
                            sent o' = sent o /\ c_q o' = c_q o /\
                            (c_leaving o' = c_leaving o \/ (c_leaving o' = true /\ fixed = true /\ c_id o = i))).
    { intros o' Ho'. destruct fixed eqn:Ef.
      - apply in_upd_out in Ho'. destruct Ho' as [o [Ho [[Hid ->]|[Hid ->]]]]; exists o; cbn; repeat split; auto.
      - exists o'. repeat split; auto. }
    constructor; simp_st.
    - rewrite Hids. apply I.
    - apply I.
    - intros e rem H. rewrite Hids. apply (I_rem s I). exact H.
    - intros e rem j H. destruct (I_sending s I e rem j H) as [H1 H2]. split; [exact H1|]. intros o' Ho'.
      destruct fixed; [|apply H2; exact Ho'].
      rewrite get_upd_out in Ho' by exact Hf. destruct (get_out j (outs s)) as [o1|]; [|discriminate].
      injection Ho' as <-. destruct (j =? i); [cbn|]; apply H2; reflexivity.
    - intros o' Ho'. destruct (Hin o' Ho') as [o [Ho [E1 [E2 [E3 [E4 [E5 E6]]]]]]].
      pose proof (I_seg s I o Ho) as H. rewrite E2. unfold seg_exact, seg_prefix, pending in *. simp_st. rewrite E1, E3, E4.
      destruct (c_skipped o); [|exact H]. destruct H as [H1 H2]. split; [|exact H2].
      destruct E6 as [E6|[E6 _]]; congruence.
    - intros o' Ho'. destruct (Hin o' Ho') as [o [Ho [E1 [E2 [E3 [E4 [E5 E6]]]]]]]. rewrite E5. apply I. exact Ho.
    - intros o' Ho' Hlv. destruct (Hin o' Ho') as [o [Ho [E1 [E2 [E3 [E4 [E5 E6]]]]]]]. rewrite E1.
      destruct E6 as [E6|[_ [E6 E7]]].
      + rewrite E6 in Hlv. destruct (I_leaving s I o Ho Hlv) as [H1 [d [H2 [H3 H4]]]]. split; [exact H1|].
        destruct (Nat.eq_dec (d_id d) i) as [He|Hne].
        * assert (d = mkDs i DsCalled c) as -> by (apply (nodup_same_id (ds s)); auto; apply I).
          cbn in H4. destruct H4; discriminate.
        * exists d. split; [apply in_set_ds_intro; assumption|]. tauto.
      + split; [exact E6|]. exists (mkDs i DsMarked c). split; [apply (in_set_ds_same i DsMarked (ds s) _ Hd0); reflexivity|].
        cbn. split; [congruence|left; reflexivity].
    - apply I.
    - rewrite ids_set_ds. apply I.
    - intros d' Hd'. apply in_set_ds in Hd'. destruct Hd' as [d [Hd [[Hid ->]|[Hid ->]]]].
      + assert (d = mkDs i DsCalled c) as -> by (apply (nodup_same_id (ds s)); auto; apply I).
        split; simp_st; cbn [d_pc d_id holds]; [exact D1|]. split.
        * intro H. apply D2. apply (proj2 (get_out_none _ _)). apply (proj1 (get_out_none _ _)) in H. rewrite Hids in H. exact H.
        * intros Hfx o'. rewrite Hfx. rewrite get_upd_out by exact Hf. destruct (get_out i (outs s)); [|discriminate].
          rewrite Nat.eqb_refl. intro E. injection E as <-. reflexivity.
      + destruct (I_ds s I d Hd) as [H1 H2]. split; simp_st; [exact H1|].
        assert (G : get_out (d_id d) (if fixed then upd_out i set_leaving (outs s) else outs s) = get_out (d_id d) (outs s)).
        { destruct fixed; [apply get_upd_out_other; assumption|reflexivity]. }
        rewrite G. exact H2.
    - intros j Hj. destruct (I_own_ds s I j Hj) as [d [H1 [H2 H3]]].
      destruct (Nat.eq_dec (d_id d) i) as [He|Hne].
      + assert (d = mkDs i DsCalled c) as -> by (apply (nodup_same_id (ds s)); auto; apply I). discriminate.
      + exists d. split; [apply in_set_ds_intro; assumption|tauto].
  Qed.

  Lemma inv_DespawnAcquire s s' i : Inv s -> step s (DespawnAcquire i) = Some s' -> Inv s'.
  Proof.
    intros I H. cbn in H. destruct (own s) eqn:Eo; try discriminate.
    destruct (get_ds i (ds s)) as [[i0 [| | |] c]|] eqn:Ed; try discriminate. injection H as <-.
    destruct (get_ds_in _ _ _ Ed) as [Hd0 Hi0]. cbn in Hi0. subst i0.
    destruct (I_ds s I _ Hd0) as [D1 D2]. cbn in D1, D2.
    constructor; simp_st; try apply I.
    - pose proof (I_own s I) as Ow. rewrite Eo in Ow. destruct (pc s); try discriminate.
    - intros o Ho Hlv. destruct (I_leaving s I o Ho Hlv) as [H1 [d [H2 [H3 H4]]]]. split; [exact H1|].
      destruct (Nat.eq_dec (d_id d) i) as [He|Hne].
      + exists (mkDs i DsLocked c). split; [apply (in_set_ds_same i DsLocked (ds s) _ Hd0); reflexivity|].
        cbn. split; [congruence|right; reflexivity].
      + exists d. split; [apply in_set_ds_intro; assumption|tauto].
    - rewrite ids_set_ds. apply I.
    - intros d' Hd'. apply in_set_ds in Hd'. destruct Hd' as [d [Hd [[Hid ->]|[Hid ->]]]].
      + split; simp_st; cbn [d_pc d_id holds]; [reflexivity|exact D2].
      + destruct (I_ds s I d Hd) as [H1 H2]. split; simp_st; [|exact H2]. rewrite Eo in H1.
        destruct (holds (d_pc d)); [discriminate|congruence].
    - intros j Hj. injection Hj as <-. exists (mkDs i DsLocked c).
      split; [apply (in_set_ds_same i DsLocked (ds s) _ Hd0); reflexivity|]. cbn. auto.
  Qed.

  Lemma inv_DespawnRemove s s' i : Inv s -> step s (DespawnRemove i) = Some s' -> Inv s'.
  Proof.
    intros I H. cbn in H. destruct (own s) as [| | |j] eqn:Eo; try discriminate.
    destruct (get_ds i (ds s)) as [[i0 [| | |] c]|] eqn:Ed; try discriminate.
    destruct (get_out i (outs s)) as [o|] eqn:Eg; [|discriminate].
    destruct (i =? j) eqn:Eij; [|discriminate]. apply Nat.eqb_eq in Eij. subst j. injection H as <-.
    destruct (get_ds_in _ _ _ Ed) as [Hd0 Hi0]. cbn in Hi0. subst i0.
    destruct (get_out_in _ _ _ Eg) as [Go Gi].
    assert (Hnl : rem_of (pc s) = None) by (apply (not_locked_of_own s I); rewrite Eo; discriminate).
    constructor; simp_st; try apply I.
    - apply nodup_ids_del_out. apply I.
    - pose proof (I_own s I) as Ow. rewrite Eo in Ow. exact Ow.
    - intros e rem H. rewrite H in Hnl. discriminate.
    - intros e rem j H. rewrite H in Hnl. discriminate.
    - intros o' Ho'. apply in_del_out in Ho'. destruct Ho' as [Ho' _]. pose proof (I_seg s I o' Ho') as H.
      destruct (c_skipped o'); [exact H|]. unfold seg_exact, pending in *. simp_st. exact H.
    - intros o' Ho'. apply in_del_out in Ho'. apply I. tauto.
    - intros o' Ho' Hlv. apply in_del_out in Ho'. destruct Ho' as [Ho' Hne].
      destruct (I_leaving s I o' Ho' Hlv) as [H1 [d [H2 [H3 H4]]]]. split; [exact H1|].
      exists d. split; [apply in_set_ds_intro; [assumption|congruence]|tauto].
    - rewrite ids_set_ds. apply I.
    - intros d' Hd'. apply in_set_ds in Hd'. destruct Hd' as [d [Hd [[Hid ->]|[Hid ->]]]].
      + split; simp_st; cbn [d_pc d_id holds]; [reflexivity|].
        pose proof (I_seg s I o Go) as H. unfold gone_ok.
        destruct (c_skipped o) eqn:Es.
        * destruct H as [H1 [rest H2]]. split; [exists rest; exact H2|].
          split; [rewrite H2, !app_length; lia|]. split; [lia|]. split; [discriminate|].
          intros _. apply (I_leaving s I o Go H1).
        * unfold seg_exact in H. rewrite (pending_unlocked _ _ Hnl), app_nil_r in H.
          split; [exists []; rewrite app_nil_r; exact H|]. rewrite <- H.
          split; [lia|]. split; [lia|]. split; [reflexivity|discriminate].
      + destruct (I_ds s I d Hd) as [H1 H2]. rewrite Eo in H1. split; simp_st; [exact H1|].
        rewrite get_del_out_other by exact Hid. exact H2.
    - intros j Hj. injection Hj as <-. eexists. split; [apply (in_set_ds_same i _ (ds s) _ Hd0); reflexivity|].
      cbn. auto.
  Qed.

  Lemma inv_DespawnRelease s s' i : Inv s -> step s (DespawnRelease i) = Some s' -> Inv s'.
  Proof.
    intros I H. cbn in H. destruct (own s) as [| | |j] eqn:Eo; try discriminate.
    destruct (get_ds i (ds s)) as [[i0 [| | |o b pos] c]|] eqn:Ed; try discriminate.
    destruct (i =? j) eqn:Eij; [|discriminate]. apply Nat.eqb_eq in Eij. subst j. injection H as <-.
    destruct (get_ds_in _ _ _ Ed) as [Hd0 Hi0]. cbn in Hi0. subst i0.
    destruct (I_ds s I _ Hd0) as [D1 D2]. cbn in D1, D2.
    constructor; simp_st; try apply I.
    - pose proof (I_own s I) as Ow. rewrite Eo in Ow. destruct (pc s); try discriminate.
    - intros o' Ho' Hlv. destruct (I_leaving s I o' Ho' Hlv) as [H1 [d [H2 [H3 H4]]]]. split; [exact H1|].
      exists d. split; [|tauto]. apply in_del_ds. split; [exact H2|]. intro He.
      assert (d = mkDs i (DsRemoved o b pos) c) as -> by (apply (nodup_same_id (ds s)); auto; apply I).
      cbn in H4. destruct H4; discriminate.
    - intros g [<-|Hg]; [exact D2|apply I; exact Hg].
    - apply nodup_del_ds. apply I.
    - intros d Hd. apply in_del_ds in Hd. destruct Hd as [Hd Hne]. destruct (I_ds s I d Hd) as [H1 H2].
      split; simp_st; [|exact H2]. rewrite Eo in H1. destruct (holds (d_pc d)); [congruence|discriminate].
    - discriminate.
  Qed.

  Lemma inv_step s l s' : Inv s -> step s l = Some s' -> Inv s'.
  Proof.
    intros I H. destruct l.
    - exact (inv_RunTake _ _ I H).
    - exact (inv_RunLock _ _ I H).
    - exact (inv_RunCheck _ _ _ I H).
    - exact (inv_RunSend _ _ _ I H).
    - exact (inv_RunAbort _ _ _ I H).
    - exact (inv_RunUnlock _ _ I H).
    - exact (inv_SpawnAcquire _ _ _ I H).
    - exact (inv_SpawnInsert _ _ _ I H).
    - exact (inv_SpawnRelease _ _ I H).
    - exact (inv_DespawnMark _ _ _ I H).
    - exact (inv_DespawnAcquire _ _ _ I H).
    - exact (inv_DespawnRemove _ _ _ I H).
    - exact (inv_DespawnRelease _ _ _ I H).
    - exact (inv_Produce _ _ _ I H).
    - exact (inv_Read _ _ _ I H).
    - exact (inv_CallSpawn _ _ I H).
    - exact (inv_CallDespawn _ _ _ I H).
  Qed.

  Lemma inv_reachable s : reachable step init s -> Inv s.
  Proof. induction 1 as [|s l s' _ IH H]; [apply inv_init|exact (inv_step _ _ _ IH H)]. Qed.

  (* ---- C15_fanout_segment *)
  Lemma segment_index (h pre x rest : list T) :
    h = pre ++ x ++ rest -> x = firstn (length x) (skipn (length pre) h).
  Proof.
    intros ->. rewrite skipn_app, skipn_all, Nat.sub_diag. cbn.
    rewrite firstn_app, firstn_all, Nat.sub_diag. cbn. rewrite app_nil_r. reflexivity.
  Qed.

  Lemma fanout_segment s : reachable step init s ->
    (forall o, In o (outs s) ->
       (c_skipped o = false -> hist s = c_pre o ++ c_read o ++ c_q o ++ pending s (c_id o)) /\
       (c_skipped o = true -> fixed = true /\ c_leaving o = true /\
                              exists rest, hist s = c_pre o ++ c_read o ++ c_q o ++ rest) /\
       c_read o ++ c_q o = firstn (length (c_read o ++ c_q o)) (skipn (length (c_pre o)) (hist s)) /\
       length (c_q o) <= icap) /\
    (forall g, In g (gone s) ->
       let o := g_out g in
       (exists rest, hist s = c_pre o ++ c_read o ++ c_q o ++ rest) /\
       c_read o ++ c_q o = firstn (length (c_read o ++ c_q o)) (skipn (length (c_pre o)) (hist s)) /\
       length (c_pre o) + length (c_read o ++ c_q o) <= g_b g /\ g_b g <= length (hist s) /\
       (c_skipped o = false -> length (c_pre o) + length (c_read o ++ c_q o) = g_b g) /\
       (fixed = false -> c_skipped o = false)) /\
    NoDup (ids (outs s)).
  Proof.
    intro R. pose proof (inv_reachable s R) as I. split; [|split; [|apply I]].
    - intros o Ho. pose proof (I_seg s I o Ho) as H. unfold seg_exact, seg_prefix, sent in H.
      assert (P : exists rest, hist s = c_pre o ++ (c_read o ++ c_q o) ++ rest).
      { destruct (c_skipped o); [apply H|]. eexists. exact H. }
      split; [|split; [|split]].
      + intro Hs. rewrite Hs in H. rewrite H, <- !app_assoc. reflexivity.
      + intro Hs. rewrite Hs in H. destruct H as [H1 [rest H2]].
        split; [apply (I_leaving s I o Ho H1)|]. split; [exact H1|]. exists rest. rewrite H2, <- !app_assoc. reflexivity.
      + destruct P as [rest P]. exact (segment_index _ _ _ _ P).
      + apply I. exact Ho.
    - intros g Hg o. destruct (I_gone s I g Hg) as [[rest H1] [H2 [H3 [H4 H5]]]]. fold o in H1, H2, H3, H4, H5.
      unfold sent in *. rewrite app_length in H2, H4.
      split; [exists rest; rewrite H1, <- !app_assoc; reflexivity|].
      split; [exact (segment_index _ _ _ _ H1)|]. split; [exact H2|]. split; [exact H3|]. split; [exact H4|].
      intro Hf. destruct (c_skipped o); [|reflexivity]. specialize (H5 eq_refl). congruence.
  Qed.

  (* ---- C15_independent: attaching or detaching another consumer is a frame step for consumer i *)
  Lemma independent s l s' i o :
    step s l = Some s' -> attach_detach_other i l = true -> get_out i (outs s) = Some o ->
    get_out i (outs s') = Some o /\ hist s' = hist s /\ pending s' i = pending s i.
  Proof.
    intros H Ha Hg. destruct l; try discriminate; cbn in Ha; unfold Fanout.step in H.
    - destruct (own s); try discriminate. destruct (mem p (sp_wait s)); [|discriminate]. injection H as <-. auto.
    - destruct (own s) as [| |p [j|]|]; try discriminate. destruct (mem i0 (ids (outs s))) eqn:Em; [discriminate|].
      injection H as <-. simp_st. split; [|auto]. rewrite get_out_app_other; [exact Hg|]. cbn.
      apply negb_true_iff in Ha. apply Nat.eqb_neq in Ha. exact Ha.
    - destruct (own s) as [| |p [j|]|]; try discriminate. injection H as <-. auto.
    - destruct (get_ds i0 (ds s)) as [[i1 [| | |] c]|]; try discriminate. injection H as <-. simp_st. split; [|auto].
      apply negb_true_iff in Ha. apply Nat.eqb_neq in Ha.
      destruct fixed; [|exact Hg]. rewrite get_upd_out_other; auto.
    - destruct (own s); try discriminate. destruct (get_ds i0 (ds s)) as [[i1 [| | |] c]|]; try discriminate.
      injection H as <-. auto.
    - destruct (own s) as [| | |j]; try discriminate. destruct (get_ds i0 (ds s)) as [[i1 [| | |] c]|]; try discriminate.
      destruct (get_out i0 (outs s)); [|discriminate]. destruct (i0 =? j); [|discriminate]. injection H as <-. simp_st.
      split; [|auto]. apply negb_true_iff in Ha. apply Nat.eqb_neq in Ha. rewrite get_del_out_other; auto.
    - destruct (own s) as [| | |j]; try discriminate. destruct (get_ds i0 (ds s)) as [[i1 [| | |] c]|]; try discriminate.
      destruct (i0 =? j); [|discriminate]. injection H as <-. auto.
    - injection H as <-. auto.
    - destruct (get_out i0 (outs s)); [|discriminate]. destruct (get_ds i0 (ds s)); [discriminate|].
      destruct (own s) as [| |p [j|]|]; try (injection H as <-; auto). destruct (i0 =? j); [discriminate|]. injection H as <-; auto.
  Qed.

  (* ---- liveness: the ranking function *)
  Lemma sum_q_upd i f (os : list output) o :
    (forall o, c_id (f o) = c_id o) -> NoDup (ids os) -> get_out i os = Some o ->
    sum_q (upd_out i f os) + length (c_q o) = sum_q os + length (c_q (f o)).
  Proof.
    intros Hf. unfold sum_q, get_out, upd_out, ids, list_sum. induction os as [|x r IH]; cbn; [discriminate|].
    intros Hn Hg. inversion Hn as [|? ? Hx Hr]; subst. destruct (c_id x =? i) eqn:E.
    - injection Hg as ->. apply Nat.eqb_eq in E.
      assert (R : map (fun o0 => if c_id o0 =? i then f o0 else o0) r = r).
      { rewrite <- (map_id r) at 2. apply map_ext_in. intros a Ha. destruct (c_id a =? i) eqn:E2; [|reflexivity].
        apply Nat.eqb_eq in E2. exfalso. apply Hx. rewrite E, <- E2. apply in_map. exact Ha. }
      rewrite R. lia.
    - specialize (IH Hr Hg). lia.
  Qed.

  Lemma length_upd_out i f (os : list output) : length (upd_out i f os) = length os.
  Proof. apply map_length. Qed.

  Lemma sum_q_del i (os : list output) : sum_q (del_out i os) <= sum_q os /\ length (del_out i os) <= length os.
  Proof.
    unfold sum_q, del_out, list_sum. induction os as [|x r IH]; cbn; [lia|]. destruct (negb (c_id x =? i)); cbn; lia.
  Qed.

  Lemma sum_q_app (os : list output) o : sum_q (os ++ [o]) = sum_q os + length (c_q o).
  Proof. unfold sum_q. rewrite map_app, list_sum_app. cbn. lia. Qed.

  Lemma ds_sum_set i p (l : list (@dcall T)) d :
    NoDup (map d_id l) -> get_ds i l = Some d ->
    list_sum (map ds_cost (set_ds i p l)) + ds_cost d = list_sum (map ds_cost l) + ds_cost (mkDs i p (d_call d)).
  Proof.
    unfold get_ds, set_ds, list_sum. induction l as [|x r IH]; cbn [find map fold_right]; [discriminate|].
    intros Hn Hg. inversion Hn as [|? ? Hx Hr]; subst. destruct (d_id x =? i) eqn:E.
    - injection Hg as ->. apply Nat.eqb_eq in E.
      assert (R : map (fun d0 => if d_id d0 =? i then mkDs (d_id d0) p (d_call d0) else d0) r = r).
      { rewrite <- (map_id r) at 2. apply map_ext_in. intros a Ha. destruct (d_id a =? i) eqn:E2; [|reflexivity].
        apply Nat.eqb_eq in E2. exfalso. apply Hx. rewrite E, <- E2. apply in_map. exact Ha. }
      rewrite R, E. unfold ds_cost. cbn [d_pc]. lia.
    - specialize (IH Hr Hg). lia.
  Qed.

  Lemma ds_sum_del i (l : list (@dcall T)) d :
    get_ds i l = Some d -> list_sum (map ds_cost (del_ds i l)) + ds_cost d <= list_sum (map ds_cost l).
  Proof.
    unfold get_ds, del_ds, list_sum. induction l as [|x r IH]; cbn [find filter]; [discriminate|].
    destruct (d_id x =? i) eqn:E; cbn [negb map fold_right].
    - intro Hg. injection Hg as ->. clear IH.
      assert (fold_right Nat.add 0 (map ds_cost (filter (fun d0 => negb (d_id d0 =? i)) r)) <= fold_right Nat.add 0 (map ds_cost r)).
      { induction r as [|y r' IH]; cbn; [lia|]. destruct (negb (d_id y =? i)); cbn; lia. }
      lia.
    - intro Hg. specialize (IH Hg). lia.
  Qed.

  Lemma ds_cost_pos (d : @dcall T) : 1 <= ds_cost d.
  Proof. unfold ds_cost. destruct (d_pc d); lia. Qed.

  Lemma remove_one_length p l : mem p l = true -> length (remove_one p l) + 1 = length l.
  Proof.
    induction l as [|x r IH]; cbn; [discriminate|]. rewrite Nat.eqb_sym. destruct (x =? p); cbn; [lia|].
    intro H. specialize (IH H). lia.
  Qed.

  Ltac unfold_measure := unfold measure, run_cost, spawn_cost, elem_cost, bound_outs, ds_cost; simp_st.

  Lemma measure_decreases s l s' i :
    Inv s -> step s l = Some s' -> allowed i l = true -> measure s' < measure s.
  Proof.
    intros I H Ha. destruct l; try discriminate; unfold Fanout.step in H.
    - (* RunTake *)
      destruct (pc s) eqn:Epc; try discriminate. destruct (inq s) as [|e r] eqn:Eq; [discriminate|]. injection H as <-.
      unfold_measure. rewrite Epc, Eq. cbn [length]. lia.
    - (* RunLock *)
      destruct (pc s) eqn:Epc; try discriminate. destruct (own s) eqn:Eo; try discriminate. injection H as <-.
      unfold_measure. rewrite Epc, Eo. unfold ids. rewrite map_length. lia.
    - (* RunCheck *)
      destruct (pc s) as [| |e rem|] eqn:Epc; try discriminate. destruct (mem i0 rem) eqn:Em; [|discriminate].
      destruct (get_out i0 (outs s)) as [o|] eqn:Eg; [|discriminate]. apply mem_in in Em.
      pose proof (rem_id_length_lt _ _ Em) as Hl.
      destruct (fixed && c_leaving o); injection H as <-; unfold_measure; rewrite Epc.
      + pose proof (sum_q_upd i0 set_skipped (outs s) o (fun _ => eq_refl) (I_nodup s I) Eg) as Hq. cbn [set_skipped c_q] in Hq.
        rewrite length_upd_out. lia.
      + lia.
    - (* RunSend *)
      destruct (pc s) as [| | |e rem j] eqn:Epc; try discriminate. destruct (i0 =? j) eqn:E; [|discriminate].
      apply Nat.eqb_eq in E. subst j. destruct (get_out i0 (outs s)) as [o|] eqn:Eg; [|discriminate].
      destruct (length (c_q o) <? icap); [|discriminate]. injection H as <-.
      destruct (I_sending s I _ _ _ Epc) as [Em _]. pose proof (rem_id_length_lt _ _ Em) as Hl.
      pose proof (sum_q_upd i0 (set_q (c_q o ++ [e])) (outs s) o (fun _ => eq_refl) (I_nodup s I) Eg) as Hq.
      cbn [set_q c_q] in Hq. rewrite app_length in Hq. cbn [length] in Hq.
      unfold_measure. rewrite Epc, length_upd_out. lia.
    - (* RunAbort *)
      destruct (pc s) as [| | |e rem j] eqn:Epc; try discriminate. destruct ((i0 =? j) && fixed) eqn:E; [|discriminate].
      apply andb_prop in E. destruct E as [E _]. apply Nat.eqb_eq in E. subst j.
      destruct (get_out i0 (outs s)) as [o|] eqn:Eg; [|discriminate].
      destruct (c_leaving o); [|discriminate]. injection H as <-.
      destruct (I_sending s I _ _ _ Epc) as [Em _]. pose proof (rem_id_length_lt _ _ Em) as Hl.
      pose proof (sum_q_upd i0 set_skipped (outs s) o (fun _ => eq_refl) (I_nodup s I) Eg) as Hq. cbn [set_skipped c_q] in Hq.
      unfold_measure. rewrite Epc, length_upd_out. lia.
    - (* RunUnlock *)
      destruct (pc s) as [| |e rem|] eqn:Epc; try discriminate. destruct rem; [|discriminate]. injection H as <-.
      pose proof (I_own s I) as Ow. rewrite Epc in Ow. unfold_measure. rewrite Epc, Ow. cbn [length]. lia.
    - (* SpawnAcquire *)
      destruct (own s) eqn:Eo; try discriminate. destruct (mem p (sp_wait s)) eqn:Em; [|discriminate]. injection H as <-.
      pose proof (remove_one_length _ _ Em) as Hl. unfold_measure. rewrite Eo.
      replace (length (outs s) + length (remove_one p (sp_wait s)) + 1) with (length (outs s) + length (sp_wait s) + 0) by lia.
      lia.
    - (* SpawnInsert *)
      destruct (own s) as [| |p [j|]|] eqn:Eo; try discriminate. destruct (mem i0 (ids (outs s))); [discriminate|].
      injection H as <-. unfold_measure. rewrite Eo, sum_q_app, app_length. cbn [length c_q].
      replace (length (outs s) + 1 + length (sp_wait s) + 0) with (length (outs s) + length (sp_wait s) + 1) by lia.
      lia.
    - (* SpawnRelease *)
      destruct (own s) as [| |p [j|]|] eqn:Eo; try discriminate. injection H as <-. unfold_measure. rewrite Eo. lia.
    - (* DespawnMark *)
      destruct (get_ds i0 (ds s)) as [[i1 [| | |] c]|] eqn:Ed; try discriminate. injection H as <-.
      pose proof (ds_sum_set i0 DsMarked (ds s) _ (I_ds_nodup s I) Ed) as Hd. unfold ds_cost in Hd; cbn [d_pc] in Hd.
      unfold_measure.
      assert (Hq : sum_q (if fixed then upd_out i0 set_leaving (outs s) else outs s) = sum_q (outs s) /\
                   length (if fixed then upd_out i0 set_leaving (outs s) else outs s) = length (outs s)).
      { destruct fixed; [|auto]. split; [|apply length_upd_out].
        destruct (get_out i0 (outs s)) as [o|] eqn:Eg.
        - pose proof (sum_q_upd i0 set_leaving (outs s) o (fun _ => eq_refl) (I_nodup s I) Eg) as Hq. cbn [set_leaving c_q] in Hq. lia.
        - unfold sum_q, upd_out. rewrite map_map. f_equal. apply map_ext. intro o. destruct (c_id o =? i0); reflexivity. }
      destruct Hq as [Hq1 Hq2]. rewrite Hq1, Hq2. lia.
    - (* DespawnAcquire *)
      destruct (own s) eqn:Eo; try discriminate. destruct (get_ds i0 (ds s)) as [[i1 [| | |] c]|] eqn:Ed; try discriminate.
      injection H as <-.
      pose proof (ds_sum_set i0 DsLocked (ds s) _ (I_ds_nodup s I) Ed) as Hd. unfold ds_cost in Hd; cbn [d_pc] in Hd.
      unfold_measure. rewrite Eo. lia.
    - (* DespawnRemove *)
      destruct (own s) as [| | |j] eqn:Eo; try discriminate.
      destruct (get_ds i0 (ds s)) as [[i1 [| | |] c]|] eqn:Ed; try discriminate.
      destruct (get_out i0 (outs s)) as [o|] eqn:Eg; [|discriminate]. destruct (i0 =? j); [|discriminate]. injection H as <-.
      pose proof (ds_sum_set i0 (DsRemoved o (length (hist s)) (produced s)) (ds s) _ (I_ds_nodup s I) Ed) as Hd.
      unfold ds_cost in Hd; cbn [d_pc] in Hd.
      destruct (sum_q_del i0 (outs s)) as [Hq1 Hq2].
      assert (Hnl : rem_of (pc s) = None) by (apply (not_locked_of_own s I); rewrite Eo; discriminate).
      unfold_measure. rewrite Eo.
      set (B' := length (del_out i0 (outs s)) + length (sp_wait s) + 0).
      set (B := length (outs s) + length (sp_wait s) + 0).
      assert (HB : B' <= B) by (subst B B'; lia).
      assert (Hm : length (inq s) * (3 * B' + 3) <= length (inq s) * (3 * B + 3)) by (apply Nat.mul_le_mono_l; lia).
      destruct (pc s); cbn in Hnl; try discriminate; lia.
    - (* DespawnRelease *)
      destruct (own s) as [| | |j] eqn:Eo; try discriminate.
      destruct (get_ds i0 (ds s)) as [[i1 [| | |o b pos] c]|] eqn:Ed; try discriminate.
      destruct (i0 =? j); [|discriminate]. injection H as <-.
      pose proof (ds_sum_del i0 (ds s) _ Ed) as Hd. unfold ds_cost in Hd; cbn [d_pc] in Hd.
      unfold_measure. rewrite Eo. lia.
    - (* Read *)
      destruct (get_out i0 (outs s)) as [o|] eqn:Eg; [|discriminate]. destruct (c_q o) as [|x r] eqn:Eq; [discriminate|].
      injection H as <-.
      pose proof (sum_q_upd i0 (do_read x r) (outs s) o (fun _ => eq_refl) (I_nodup s I) Eg) as Hq. cbn [do_read c_q] in Hq.
      rewrite Eq in Hq. cbn [length] in Hq. unfold_measure. rewrite length_upd_out. lia.
  Qed.

  (* ---- liveness: progress (fixed algorithm) *)
  Lemma fresh_id_exists (l : list nat) : exists j, mem j l = false.
  Proof.
    exists (S (list_max l)). apply mem_false. intro H.
    pose proof (proj1 (list_max_le l (list_max l)) (le_n _)) as HF. rewrite Forall_forall in HF. specialize (HF _ H). lia.
  Qed.

  Lemma progress s i :
    fixed = true -> 1 <= icap -> Inv s -> despawn_pending s i = true ->
    exists l, allowed i l = true /\ step s l <> None.
  Proof.
    intros Hfx Hcap I Hp. unfold despawn_pending in Hp. destruct (get_ds i (ds s)) as [d|] eqn:Ed; [|discriminate]. clear Hp.
    destruct (get_ds_in _ _ _ Ed) as [Hd Hid]. destruct (I_ds s I d Hd) as [D1 D2]. rewrite Hid in D1, D2.
    destruct d as [i1 dp c]. cbn in Hid, D1, D2. subst i1.
    (* whoever holds the mutex can make a step *)
    assert (Hholder : forall j, own s = ODespawn j -> exists l, allowed i l = true /\ step s l <> None).
    { intros j Hj. destruct (I_own_ds s I j Hj) as [d' [H1 [H2 H3]]]. destruct (I_ds s I d' H1) as [E1 E2].
      pose proof (in_get_ds _ _ (I_ds_nodup s I) H1) as G. rewrite H2 in G, E2.
      destruct d' as [j1 dp' c']. cbn in H2, H3, E2. subst j1. destruct dp'; try discriminate.
      - exists (DespawnRemove j). split; [reflexivity|]. unfold Fanout.step. rewrite Hj, G.
        destruct E2 as [E2 _]. destruct (get_out j (outs s)); [|congruence]. rewrite Nat.eqb_refl. discriminate.
      - exists (DespawnRelease j). split; [reflexivity|]. unfold Fanout.step. rewrite Hj, G, Nat.eqb_refl. discriminate. }
    destruct dp as [| | |o b pos]; cbn in D1.
    - exists (DespawnMark i). split; [reflexivity|]. unfold Fanout.step. rewrite Ed. discriminate.
    - (* waiting for the mutex *)
      destruct (own s) as [| |p [j|]|j] eqn:Eo.
      + exists (DespawnAcquire i). split; [reflexivity|]. unfold Fanout.step. rewrite Eo, Ed. discriminate.
      + pose proof (I_own s I) as Ow. rewrite Eo in Ow.
        destruct (pc s) as [| |e rem|e rem j] eqn:Epc; try congruence.
        * destruct rem as [|j rem'].
          -- exists RunUnlock. split; [reflexivity|]. unfold Fanout.step. rewrite Epc. discriminate.
          -- destruct (I_rem s I e (j :: rem')) as [_ [R _]]; [rewrite Epc; reflexivity|].
             specialize (R j (or_introl eq_refl)). apply in_map_iff in R. destruct R as [o [R1 R2]].
             pose proof (in_get_out _ _ (I_nodup s I) R2) as G. rewrite R1 in G.
             exists (RunCheck j). split; [reflexivity|]. unfold Fanout.step. rewrite Epc. cbn [mem existsb]. rewrite Nat.eqb_refl.
             cbn [orb]. rewrite G. destruct (fixed && c_leaving o); discriminate.
        * destruct (I_sending s I _ _ _ Epc) as [Hj _].
          destruct (I_rem s I e rem) as [_ [R _]]; [rewrite Epc; reflexivity|].
          specialize (R j Hj). apply in_map_iff in R. destruct R as [o [R1 R2]].
          pose proof (in_get_out _ _ (I_nodup s I) R2) as G. rewrite R1 in G.
          destruct (length (c_q o) <? icap) eqn:El.
          -- exists (RunSend j). split; [reflexivity|]. unfold Fanout.step. rewrite Epc, Nat.eqb_refl, G, El. discriminate.
          -- destruct (c_leaving o) eqn:Elv.
             ++ exists (RunAbort j). split; [reflexivity|]. unfold Fanout.step. rewrite Epc, Nat.eqb_refl, Hfx, G, Elv. discriminate.
             ++ (* blocked on a full output that is not leaving: it is not i, and its consumer can read *)
                exists (Read j). apply Nat.ltb_ge in El. split.
                ** cbn. apply negb_true_iff. apply Nat.eqb_neq. intros ->.
                   destruct D2 as [_ D2]. rewrite (D2 Hfx o G) in Elv. discriminate.
                ** unfold Fanout.step. rewrite G. destruct (c_q o); [cbn in El; lia|discriminate].
      + exists SpawnRelease. split; [reflexivity|]. unfold Fanout.step. rewrite Eo. discriminate.
      + destruct (fresh_id_exists (ids (outs s))) as [k Hk].
        exists (SpawnInsert k). split; [reflexivity|]. unfold Fanout.step. rewrite Eo, Hk. discriminate.
      + apply (Hholder j). reflexivity.
    - apply (Hholder i). exact D1.
    - apply (Hholder i). exact D1.
  Qed.

  (* a pending DespawnOutput(i) ends only by its return *)
  Lemma pending_ends_by_return s l s' i :
    step s l = Some s' -> despawn_pending s i = true -> despawn_pending s' i = false -> l = DespawnRelease i.
  Proof.
    unfold despawn_pending. intros H Hp Hq.
    assert (K : forall j dp, match get_ds i (set_ds j dp (ds s)) with Some _ => true | None => false end = true).
    { intros j dp. destruct (get_ds i (ds s)) as [d|] eqn:E; [|discriminate].
      destruct (get_ds i (set_ds j dp (ds s))) eqn:E2; [reflexivity|].
      apply get_ds_none in E2. rewrite ids_set_ds in E2. exfalso. apply E2. destruct (get_ds_in _ _ _ E) as [G1 G2].
      rewrite <- G2. apply in_map. exact G1. }
    destruct l; unfold Fanout.step in H;
      repeat match type of H with
             | context [match ?x with _ => _ end] => destruct x eqn:?; try discriminate
             end; try (injection H as <-; cbn [ds] in Hq; try congruence).
    all: try (rewrite K in Hq; discriminate).
    - destruct (Nat.eq_dec i0 i) as [->|Hne]; [reflexivity|]. exfalso.
      destruct (get_ds i (ds s)) as [d9|] eqn:E; [|discriminate]. destruct (get_ds_in _ _ _ E) as [G1 G2].
      destruct (get_ds i (del_ds i0 (ds s))) eqn:E2; [discriminate|]. apply get_ds_none in E2. apply E2.
      rewrite <- G2. apply in_map. apply in_del_ds. split; [exact G1|congruence].
    - exfalso. unfold get_ds in Hp, Hq. cbn [find Fanout.d_id] in Hq. destruct (i0 =? i); [discriminate|]. congruence.
    - exfalso. unfold get_ds in Hp, Hq. cbn [find Fanout.d_id] in Hq. destruct (i0 =? i); [discriminate|]. congruence.
    - exfalso. unfold get_ds in Hp, Hq. cbn [find Fanout.d_id] in Hq. destruct (i0 =? i); [discriminate|]. congruence.
    - exfalso. unfold get_ds in Hp, Hq. cbn [find Fanout.d_id] in Hq. destruct (i0 =? i); [discriminate|]. congruence.
    - exfalso. unfold get_ds in Hp, Hq. cbn [find Fanout.d_id] in Hq. destruct (i0 =? i); [discriminate|]. congruence.
  Qed.
End FanInv.

(* ================================================================ the fan-out theorems, parameters explicit *)
Lemma reachable_exec {S L : Type} (step : S -> L -> option S) (init s s' : S) ls :
  reachable step init s -> exec step s ls s' -> reachable step init s'.
Proof. intros R E. induction E as [|s l s1 ls s2 H _ IH]; [exact R|]. apply IH. exact (reach_step _ _ _ _ _ R H). Qed.

(* C15_despawn_completes *)
Lemma despawn_completes {T : Type} (icap : nat) (s : @state T) (i : nat) :
  1 <= icap -> reachable (step true icap) init s -> despawn_pending s i = true ->
  forall ls s', exec (step true icap) s ls s' -> Forall (fun l => allowed i l = true) ls ->
    length ls <= measure s /\
    ((forall l, allowed i l = true -> step true icap s' l = None) -> despawn_pending s' i = false).
Proof.
  intros Hcap R Hp ls s' E Hall. split.
  - clear Hp. induction E as [|s l s1 ls s2 H E IH]; [cbn; lia|].
    inversion Hall as [|? ? Ha Hr]; subst. pose proof (inv_reachable true icap s R) as I.
    pose proof (measure_decreases true icap s l s1 i I H Ha) as Hm.
    specialize (IH (reach_step _ _ _ _ _ R H) Hr). cbn. lia.
  - intro Hstuck. destruct (despawn_pending s' i) eqn:Hp'; [|reflexivity]. exfalso.
    pose proof (reachable_exec _ _ _ _ _ R E) as R'.
    destruct (progress true icap s' i eq_refl Hcap (inv_reachable true icap s' R') Hp') as [l [Ha Hl]].
    apply Hl. apply Hstuck. exact Ha.
Qed.

(* C15_despawn_stuck_refuted: D16 in the model of the repository's algorithm.  Two consumers; consumer 0 stops reading. *)
Fixpoint run_trace {S L : Type} (step : S -> L -> option S) (s : S) (ls : list L) : option S :=
  match ls with
  | [] => Some s
  | l :: r => match step s l with Some s1 => run_trace step s1 r | None => None end
  end.

Lemma run_trace_reachable {S L : Type} (step : S -> L -> option S) (init s s' : S) ls :
  reachable step init s -> run_trace step s ls = Some s' -> reachable step init s'.
Proof.
  revert s. induction ls as [|l r IH]; cbn; intros s R H; [injection H as <-; exact R|].
  destruct (step s l) as [s1|] eqn:E; [|discriminate]. apply (IH s1); [|exact H]. exact (reach_step _ _ _ _ _ R E).
Qed.

Definition d16_trace : list (@label nat) :=
  [CallSpawn; SpawnAcquire 0; SpawnInsert 0; SpawnRelease;        (* consumer 0 attached *)
   CallSpawn; SpawnAcquire 0; SpawnInsert 1; SpawnRelease;        (* consumer 1 attached *)
   Produce 10; RunTake; RunLock; RunCheck 0; RunSend 0; RunCheck 1; RunSend 1; RunUnlock;
   Read 1;                                                        (* consumer 1 reads, consumer 0 has stopped reading *)
   Produce 11; RunTake; RunLock; RunCheck 0;                      (* run blocks on consumer 0's full queue, holding the mutex *)
   CallDespawn 0; DespawnMark 0].                                 (* DespawnOutput(0) now waits for the mutex *)

Definition d16_state : @state nat :=
  Eval vm_compute in match run_trace (step false 1) init d16_trace with Some s => s | None => init end.

Lemma despawn_stuck_refuted :
  exists s : @state nat,
    reachable (step false 1) init s /\ despawn_pending s 0 = true /\
    (forall l, is_system l = true -> step false 1 s l = None) /\
    (* the other consumer is starved: element 11 is pending for it and it has nothing to read *)
    pending s 1 = [11] /\ step false 1 s (Read 1) = None.
Proof.
  exists d16_state. split; [|split; [|split; [|split]]].
  - apply (run_trace_reachable _ init init _ d16_trace); [constructor|]. vm_compute. reflexivity.
  - reflexivity.
  - intros l Hl. destruct l as [| |i|i|i| |p|i| |i|i|i|i|x|i| |i]; try discriminate; try reflexivity; destruct i as [|[|i]]; reflexivity.
  - reflexivity.
  - reflexivity.
Qed.

(* ================================================================ stream positions (ghost) and soundness of the fan-out monitor *)
Section FanPos.
  Context {T : Type}.
  Variable fixed : bool.
  Variable icap : nat.
  Notation state := (@state T).
  Notation output := (@output T).
  Notation step := (@step T fixed icap).

  Definition pos_ok (o : output) : Prop := c_scall o <= length (c_pre o) + icap + 1 /\ length (c_pre o) <= c_sins o.
  Definition dc_ok (c : nat) (o : output) : Prop := c <= length (c_pre o) + length (sent o) + icap + 2.

  Record PInv (s : state) : Prop := mkPInv {
    P_inq : length (inq s) <= icap;
    P_wait : forall p, In p (sp_wait s) -> p <= length (hist s) + icap + 1;
    P_own : forall p, own s = OSpawn p None -> p <= length (hist s) + icap + 1;
    P_out : forall o, In o (outs s) -> pos_ok o;
    P_ds : forall d, In d (ds s) ->
           match d_pc d with
           | DsRemoved o b pos => pos_ok o /\ dc_ok (d_call d) o /\ b <= pos
           | _ => forall o, get_out (d_id d) (outs s) = Some o -> dc_ok (d_call d) o
           end;
    P_gone : forall g, In g (gone s) -> pos_ok (g_out g) /\ dc_ok (g_dcall g) (g_out g) /\ g_b g <= g_drem g
  }.

  Lemma produced_bound s : PInv s -> produced s <= length (hist s) + icap + 1.
  Proof. intro P. pose proof (P_inq s P). unfold produced. destruct (pc s); lia. Qed.

  Lemma in_remove_one p x l : In x (remove_one p l) -> In x l.
  Proof. induction l as [|y r IH]; cbn; [tauto|]. destruct (y =? p); cbn; tauto. Qed.

  Ltac simp_st := cbn [inq pc own outs sp_wait ds gone hist].

  (* updating one output without touching its ghost positions, its sent sequence not getting shorter *)
  Lemma pinv_upd s s' i f :
    PInv s -> (forall o, c_id (f o) = c_id o) ->
    (forall o, In o (outs s) -> c_id o = i ->
               c_pre (f o) = c_pre o /\ c_scall (f o) = c_scall o /\ c_sins (f o) = c_sins o /\ length (sent o) <= length (sent (f o))) ->
    inq s' = inq s -> hist s' = hist s -> sp_wait s' = sp_wait s -> own s' = own s -> gone s' = gone s ->
    outs s' = upd_out i f (outs s) ->
    (ds s' = ds s \/ exists p, (p = DsMarked \/ p = DsLocked) /\ ds s' = set_ds i p (ds s) /\
                               (forall d, In d (ds s) -> d_id d = i -> d_pc d = DsCalled \/ d_pc d = DsMarked)) ->
    PInv s'.
  Proof.
    intros P Hf Hg Hi Hh Hw Ho Hgo Hou Hds.
    assert (Gds : forall d', In d' (ds s') -> exists d, In d (ds s) /\ d_id d' = d_id d /\ d_call d' = d_call d /\
                   match d_pc d' with DsRemoved _ _ _ => d_pc d' = d_pc d
                                 | _ => match d_pc d with DsRemoved _ _ _ => False | _ => True end end).
    { intros d' Hd'. destruct Hds as [Hds|[p [Hp [Hds Hc]]]].
      - rewrite Hds in Hd'. exists d'. repeat split; auto. destruct (d_pc d'); auto.
      - rewrite Hds in Hd'. apply in_set_ds in Hd'. destruct Hd' as [d [Hd [[Hid ->]|[Hid ->]]]]; exists d; cbn.
        + repeat split; auto. destruct (Hc d Hd Hid) as [E|E]; rewrite E; destruct Hp as [-> | ->]; exact I.
        + repeat split; auto. destruct (d_pc d); auto. }
    constructor.
    - rewrite Hi. apply P.
    - rewrite Hw, Hh. apply P.
    - rewrite Ho, Hh. apply P.
    - intros o' Ho'. rewrite Hou in Ho'. apply in_upd_out in Ho'. destruct Ho' as [o [Ho1 [[Hid ->]|[_ ->]]]]; [|apply P; exact Ho1].
      destruct (Hg o Ho1 Hid) as [E1 [E2 [E3 _]]]. unfold pos_ok. rewrite E1, E2, E3. apply (P_out s P o Ho1).
    - intros d' Hd'. destruct (Gds d' Hd') as [d [Hd [E1 [E2 E3]]]]. pose proof (P_ds s P d Hd) as H.
      destruct (d_pc d') eqn:Ep; try (rewrite <- E3 in H; rewrite E2; exact H);
        (rewrite E1, E2, Hou; intros o'; rewrite get_upd_out by exact Hf;
         destruct (get_out (d_id d) (outs s)) as [o|] eqn:Eg; [|discriminate]; intro E; injection E as <-;
         assert (Hdc : dc_ok (d_call d) o) by (destruct (d_pc d); try contradiction; apply H; reflexivity);
         destruct (d_id d =? i) eqn:Edi; [|exact Hdc]; apply Nat.eqb_eq in Edi; rewrite Edi in Eg;
         destruct (get_out_in _ _ _ Eg) as [Q1 Q2]; destruct (Hg o Q1 Q2) as [G1 [_ [_ G4]]]; unfold dc_ok in *; rewrite G1; lia).
    - rewrite Hgo. apply P.
  Qed.

  Lemma upd_out_id i (os : list output) : upd_out i (fun o => o) os = os.
  Proof. unfold upd_out. rewrite <- (map_id os) at 2. apply map_ext. intro o. destruct (c_id o =? i); reflexivity. Qed.

  Lemma pinv_frame s s' :
    PInv s -> length (inq s') <= icap -> length (hist s) <= length (hist s') ->
    (forall p, In p (sp_wait s') -> In p (sp_wait s)) ->
    (forall p, own s' = OSpawn p None -> own s = OSpawn p None) ->
    outs s' = outs s -> ds s' = ds s -> gone s' = gone s -> PInv s'.
  Proof.
    intros P Hi Hh Hw Ho Hou Hd Hg. constructor.
    - exact Hi.
    - intros p Hp. pose proof (P_wait s P p (Hw p Hp)). lia.
    - intros p Hp. pose proof (P_own s P p (Ho p Hp)). lia.
    - rewrite Hou. apply P.
    - rewrite Hd, Hou. apply P.
    - rewrite Hg. apply P.
  Qed.

  Lemma pinv_step s l s' : Inv fixed icap s -> PInv s -> step s l = Some s' -> PInv s'.
  Proof.
    intros I P H. destruct l; unfold Fanout.step in H.
    - (* RunTake *)
      destruct (pc s) eqn:Epc; try discriminate. destruct (inq s) as [|e r] eqn:Eq; [discriminate|]. injection H as <-.
      apply (pinv_frame s); simp_st; auto. pose proof (P_inq s P) as Hq. rewrite Eq in Hq. cbn in Hq. lia.
    - (* RunLock *)
      destruct (pc s) eqn:Epc; try discriminate. destruct (own s) eqn:Eo; try discriminate. injection H as <-.
      apply (pinv_frame s); simp_st; auto; [apply P|rewrite app_length; lia|discriminate].
    - (* RunCheck *)
      destruct (pc s) as [| |e rem|] eqn:Epc; try discriminate. destruct (mem i rem); [|discriminate].
      destruct (get_out i (outs s)) as [o|] eqn:Eg; [|discriminate].
      destruct (fixed && c_leaving o); injection H as <-.
      + apply (pinv_upd s _ i set_skipped); simp_st; auto; try (intros o0 _ _; cbn; auto).
      + apply (pinv_frame s); simp_st; auto. apply P.
    - (* RunSend *)
      destruct (pc s) as [| | |e rem j] eqn:Epc; try discriminate. destruct (i =? j); [|discriminate].
      destruct (get_out i (outs s)) as [o|] eqn:Eg; [|discriminate].
      destruct (length (c_q o) <? icap); [|discriminate]. injection H as <-.
      apply (pinv_upd s _ i (set_q (c_q o ++ [e]))); simp_st; auto.
      intros o0 Ho0 Hid. destruct (get_out_in _ _ _ Eg) as [Go Gi].
      assert (o0 = o) as -> by (apply (nodup_same_out (outs s)); try assumption; [apply I|congruence]).
      unfold sent. cbn. rewrite !app_length. cbn. repeat split; auto. lia.
    - (* RunAbort *)
      destruct (pc s) as [| | |e rem j] eqn:Epc; try discriminate. destruct ((i =? j) && fixed); [|discriminate].
      destruct (get_out i (outs s)) as [o|] eqn:Eg; [|discriminate]. destruct (c_leaving o); [|discriminate]. injection H as <-.
      apply (pinv_upd s _ i set_skipped); simp_st; auto; try (intros o0 _ _; cbn; auto).
    - (* RunUnlock *)
      destruct (pc s) as [| |e rem|] eqn:Epc; try discriminate. destruct rem; [|discriminate]. injection H as <-.
      apply (pinv_frame s); simp_st; auto; [apply P|discriminate].
    - (* SpawnAcquire *)
      destruct (own s) eqn:Eo; try discriminate. destruct (mem p (sp_wait s)) eqn:Em; [|discriminate]. injection H as <-.
      apply mem_in in Em. constructor; simp_st; try apply P.
      + intros q Hq. apply P. apply (in_remove_one _ _ _ Hq).
      + intros q Hq. injection Hq as <-. apply P. exact Em.
    - (* SpawnInsert *)
      destruct (own s) as [| |p [j|]|] eqn:Eo; try discriminate. destruct (mem i (ids (outs s))) eqn:Em; [discriminate|].
      injection H as <-. constructor; simp_st; try apply P.
      + discriminate.
      + intros o Ho. apply in_app_or in Ho. destruct Ho as [Ho|[<-|[]]]; [apply P; exact Ho|].
        unfold pos_ok. cbn. split; [apply (P_own s P p Eo)|]. unfold produced. lia.
      + intros d Hd. pose proof (P_ds s P d Hd) as H. destruct (I_ds fixed icap s I d Hd) as [_ D2].
        assert (G : get_out (d_id d) (outs s) <> None ->
                    get_out (d_id d) (outs s ++ [mkOut i [] false false (hist s) [] p (produced s)]) = get_out (d_id d) (outs s)).
        { intro Hj. unfold get_out. rewrite find_app'. fold (get_out (d_id d) (outs s)). destruct (get_out (d_id d) (outs s)); congruence. }
        destruct (d_pc d); try (rewrite G; [exact H|tauto]). exact H.
    - (* SpawnRelease *)
      destruct (own s) as [| |p [j|]|] eqn:Eo; try discriminate. injection H as <-.
      apply (pinv_frame s); simp_st; auto; [apply P|discriminate].
    - (* DespawnMark *)
      destruct (get_ds i (ds s)) as [[i1 [| | |] c]|] eqn:Ed; try discriminate. injection H as <-.
      destruct (get_ds_in _ _ _ Ed) as [Hd0 Hi0]. cbn in Hi0. subst i1.
      apply (pinv_upd s _ i (if fixed then set_leaving else fun o => o)); simp_st; auto.
      + destruct fixed; reflexivity.
      + intros o0 _ _. destruct fixed; cbn; auto.
      + destruct fixed; [reflexivity|rewrite upd_out_id; reflexivity].
      + right. exists DsMarked. split; [auto|]. split; [reflexivity|]. intros d Hd Hid.
        assert (d = mkDs i DsCalled c) as -> by (apply (nodup_same_id (ds s)); auto; apply I). left. reflexivity.
    - (* DespawnAcquire *)
      destruct (own s) eqn:Eo; try discriminate. destruct (get_ds i (ds s)) as [[i1 [| | |] c]|] eqn:Ed; try discriminate.
      injection H as <-. destruct (get_ds_in _ _ _ Ed) as [Hd0 Hi0]. cbn in Hi0. subst i1.
      assert (P1 : PInv (mkSt (inq s) (pc s) (own s) (outs s) (sp_wait s) (set_ds i DsLocked (ds s)) (gone s) (hist s))).
      { apply (pinv_upd s _ i (fun o => o)); simp_st; auto.
        - rewrite upd_out_id; reflexivity.
        - right. exists DsLocked. split; [auto|]. split; [reflexivity|]. intros d Hd Hid.
          assert (d = mkDs i DsMarked c) as -> by (apply (nodup_same_id (ds s)); auto; apply I). right. reflexivity. }
      destruct P1 as [Q1 Q2 Q3 Q4 Q5 Q6]. constructor; simp_st; auto. discriminate.
    - (* DespawnRemove *)
      destruct (own s) as [| | |j] eqn:Eo; try discriminate.
      destruct (get_ds i (ds s)) as [[i1 [| | |] c]|] eqn:Ed; try discriminate.
      destruct (get_out i (outs s)) as [o|] eqn:Eg; [|discriminate]. destruct (i =? j); [|discriminate]. injection H as <-.
      destruct (get_ds_in _ _ _ Ed) as [Hd0 Hi0]. cbn in Hi0. subst i1. destruct (get_out_in _ _ _ Eg) as [Go Gi].
      constructor; simp_st; try apply P.
      + discriminate.
      + intros o' Ho'. apply in_del_out in Ho'. apply P. tauto.
      + intros d' Hd'. apply in_set_ds in Hd'. destruct Hd' as [d [Hd [[Hid ->]|[Hid ->]]]].
        * assert (d = mkDs i DsLocked c) as -> by (apply (nodup_same_id (ds s)); auto; apply I).
          cbn. split; [apply P; exact Go|]. split; [apply (P_ds s P _ Hd0); exact Eg|]. unfold produced. lia.
        * pose proof (P_ds s P d Hd) as H. destruct (d_pc d); try (rewrite get_del_out_other by exact Hid; exact H). exact H.
    - (* DespawnRelease *)
      destruct (own s) as [| | |j] eqn:Eo; try discriminate.
      destruct (get_ds i (ds s)) as [[i1 [| | |o b pos] c]|] eqn:Ed; try discriminate.
      destruct (i =? j); [|discriminate]. injection H as <-.
      destruct (get_ds_in _ _ _ Ed) as [Hd0 Hi0]. cbn in Hi0. subst i1.
      constructor; simp_st; try apply P.
      + discriminate.
      + intros d Hd. apply in_del_ds in Hd. apply P. tauto.
      + intros g [<-|Hg]; [|apply P; exact Hg]. cbn. apply (P_ds s P _ Hd0).
    - (* Produce *)
      destruct (length (inq s) <? icap) eqn:El; [|discriminate]. injection H as <-. apply Nat.ltb_lt in El.
      apply (pinv_frame s); simp_st; auto. rewrite app_length. cbn. lia.
    - (* Read *)
      destruct (get_out i (outs s)) as [o|] eqn:Eg; [|discriminate]. destruct (c_q o) as [|x r] eqn:Eq; [discriminate|].
      injection H as <-. apply (pinv_upd s _ i (do_read x r)); simp_st; auto.
      intros o0 Ho0 Hid. destruct (get_out_in _ _ _ Eg) as [Go Gi].
      assert (o0 = o) as -> by (apply (nodup_same_out (outs s)); try assumption; [apply I|congruence]).
      unfold sent. cbn. rewrite Eq, !app_length. cbn. repeat split; auto. lia.
    - (* CallSpawn *)
      injection H as <-. constructor; simp_st; try apply P.
      intros p [<-|Hp]; [apply produced_bound; exact P|apply P; exact Hp].
    - (* CallDespawn *)
      destruct (get_out i (outs s)) as [o|] eqn:Eg; [|discriminate]. destruct (get_ds i (ds s)) eqn:Ed; [discriminate|].
      assert (s' = mkSt (inq s) (pc s) (own s) (outs s) (sp_wait s) (mkDs i DsCalled (produced s) :: ds s) (gone s) (hist s)) as ->.
      { destruct (own s) as [| |p [j|]|]; try (injection H as <-; reflexivity).
        destruct (i =? j); [discriminate|]. injection H as <-; reflexivity. }
      clear H. constructor; simp_st; try apply P.
      intros d [<-|Hd]; [|apply P; exact Hd]. cbn. intros o0 Ho0. assert (o0 = o) as -> by congruence.
      destruct (get_out_in _ _ _ Eg) as [Go Gi]. unfold dc_ok. pose proof (produced_bound s P) as Hb.
      (* o is not leaving (no despawn was pending), hence was never skipped: it has all of hist but at most one element *)
      assert (Hs : c_skipped o = false).
      { destruct (c_skipped o) eqn:Es; [|reflexivity]. exfalso.
        destruct (skipped_leaving fixed icap s o I Go Es) as [H1 _].
        destruct (I_leaving fixed icap s I o Go H1) as [_ [d [H2 [H3 _]]]].
        apply (proj1 (get_ds_none _ _) Ed). rewrite <- Gi, <- H3. apply in_map. exact H2. }
      pose proof (I_seg fixed icap s I o Go) as Hseg. rewrite Hs in Hseg. unfold seg_exact in Hseg.
      assert (Hp : length (pending s (c_id o)) <= 1).
      { unfold pending. destruct (pc s); cbn; try lia; destruct (mem _ _); cbn; lia. }
      apply (f_equal (@length T)) in Hseg. rewrite !app_length in Hseg. lia.
  Qed.

  Lemma pinv_init : PInv init.
  Proof. constructor; cbn; try tauto; try discriminate; lia. Qed.

  Lemma pinv_reachable s : reachable step init s -> PInv s.
  Proof.
    induction 1 as [|s l s' R IH H]; [apply pinv_init|]. exact (pinv_step _ _ _ (inv_reachable fixed icap s R) IH H).
  Qed.
End FanPos.

(* ---- the fan-out monitor accepts every removed consumer of every execution in which the k-th input item is k *)
Lemma contiguous_seq a m : contiguous (map N.of_nat (seq a m)) = true.
Proof.
  revert a. induction m as [|m IH]; intro a; [reflexivity|]. cbn [seq map].
  destruct m as [|m']; [reflexivity|]. specialize (IH (S a)). cbn [seq map] in IH |- *.
  cbn [contiguous]. cbn [contiguous] in IH. rewrite IH, andb_true_r. apply N.eqb_eq. lia.
Qed.

Lemma firstn_seq' k a n : firstn k (seq a n) = seq a (Nat.min k n).
Proof.
  revert a n. induction k as [|k IH]; intros a n; [reflexivity|]. destruct n as [|n]; [reflexivity|].
  cbn. f_equal. apply IH.
Qed.

Lemma skipn_seq' k a n : skipn k (seq a n) = seq (a + k) (n - k).
Proof.
  revert a n. induction k as [|k IH]; intros a n; [cbn; rewrite Nat.add_0_r, Nat.sub_0_r; reflexivity|].
  destruct n as [|n]; [reflexivity|]. cbn. rewrite IH. f_equal. lia.
Qed.

Lemma seq_segment n (pre x rest : list nat) : seq 0 n = pre ++ x ++ rest -> x = seq (length pre) (length x).
Proof.
  intro H. pose proof (segment_index _ _ _ _ H) as Hx. rewrite Hx at 1.
  assert (L : length pre + length x <= n).
  { apply (f_equal (@length nat)) in H. rewrite seq_length, !app_length in H. lia. }
  rewrite skipn_seq', firstn_seq'. cbn. f_equal. lia.
Qed.

Definition obs {T : Type} (tag : T -> nat) (g : @gone_rec T) (k : nat) : crec :=
  let o := g_out g in
  mkCrec true (N.of_nat (c_scall o)) (N.of_nat (c_sins o)) (N.of_nat (g_dcall g)) (N.of_nat (g_drem g))
         (length (sent o) <=? k) (map (fun x => N.of_nat (tag x)) (firstn k (sent o))).

(* k = number of items the consumer took from its channel (everything, if k >= what was sent to it) *)
Lemma fanout_monitor_sound fixed icap (s : @state nat) g k :
  reachable (step fixed icap) init s -> hist s = seq 0 (length (hist s)) -> In g (gone s) ->
  consumer_accepts (N.of_nat (icap + 2)) (obs (fun x => x) g k) = true.
Proof.
  intros R Hh Hg. pose proof (inv_reachable fixed icap s R) as I. pose proof (pinv_reachable fixed icap s R) as P.
  destruct (I_gone fixed icap s I g Hg) as [[rest H1] [H2 [H3 _]]].
  destruct (P_gone icap s P g Hg) as [[Q1 Q2] [Q3 Q4]]. unfold dc_ok in Q3.
  set (o := g_out g) in *. rewrite Hh in H1. pose proof (seq_segment _ _ _ _ H1) as Hs. rewrite app_length in H2.
  unfold consumer_accepts, obs. fold o. cbn [r_returned r_recv r_sc r_sr r_dc r_dr r_drained].
  rewrite Hs, firstn_seq'. set (m := Nat.min k (length (sent o))).
  change (map (fun x => N.of_nat x)) with (map N.of_nat). rewrite contiguous_seq. cbn [andb].
  assert (Hm : m <= length (sent o)) by (subst m; lia).
  destruct m as [|m'] eqn:Em.
  - cbn [seq map]. destruct (length (seq (length (c_pre o)) (length (sent o))) <=? k) eqn:Ed; [|reflexivity].
    apply Nat.leb_le in Ed. rewrite seq_length in Ed. assert (length (sent o) = 0) by lia.
    apply N.leb_le. lia.
  - cbn [seq map length]. rewrite map_length, seq_length. unfold m in Em. repeat (apply andb_true_intro; split).
    + apply N.leb_le. lia.
    + apply N.leb_le. lia.
    + apply N.leb_le. lia.
    + destruct (length (seq (length (c_pre o)) (length (sent o))) <=? k) eqn:Ed; [|reflexivity].
      apply Nat.leb_le in Ed. rewrite seq_length in Ed. apply N.leb_le. lia.
Qed.

(* the recorded counters only bound the model's positions (see the harness): acceptance is monotone in them *)
Lemma consumer_accepts_mono slack r sc sr dc dr :
  consumer_accepts slack r = true -> (sc <= r_sc r)%N -> (r_sr r <= sr)%N -> (dc <= r_dc r)%N -> (r_dr r <= dr)%N ->
  consumer_accepts slack (mkCrec (r_returned r) sc sr dc dr (r_drained r) (r_recv r)) = true.
Proof.
  unfold consumer_accepts. cbn [r_returned r_recv r_sc r_sr r_dc r_dr r_drained]. intros H H1 H2 H3 H4.
  apply andb_prop in H. destruct H as [Ha H]. rewrite Ha. cbn [andb].
  destruct (r_recv r) as [|a t].
  - destruct (r_drained r); [|reflexivity]. apply N.leb_le in H. apply N.leb_le. lia.
  - apply andb_prop in H. destruct H as [H Hd]. apply andb_prop in H. destruct H as [H Hc].
    apply andb_prop in H. destruct H as [Hx Hy]. apply N.leb_le in Hx, Hy, Hc.
    repeat (apply andb_true_intro; split); try (apply N.leb_le; lia).
    destruct (r_drained r); [|reflexivity]. apply N.leb_le in Hd. apply N.leb_le. lia.
Qed.
