(* C19: proofs about Model/Watcher.v - the filter, the counting invariant, termination and shutdown. *)
From Coq Require Import List NArith Arith Bool Lia.
From HIDI Require Import Model.Relay Model.Watcher.
Import ListNotations.

(* ------------------------------------------------------------------------------------------- the filter *)

Lemma list_eqb_eq a : forall b, list_eqb a b = true <-> a = b.
Proof.
  induction a as [|x a IH]; intros [|y b]; simpl; split; intros H; try reflexivity; try discriminate.
  - apply andb_true_iff in H. destruct H as [H1 H2]. apply N.eqb_eq in H1. apply IH in H2. congruence.
  - inversion H; subst. rewrite N.eqb_refl. simpl. apply IH. reflexivity.
Qed.

Lemma has_suffix_spec suf s : has_suffix suf s = true <-> exists pre, s = pre ++ suf.
Proof.
  unfold has_suffix. split.
  - intros H. apply andb_true_iff in H. destruct H as [_ H]. apply list_eqb_eq in H.
    exists (firstn (length s - length suf) s).
    transitivity (firstn (length s - length suf) s ++ skipn (length s - length suf) s);
      [symmetry; apply firstn_skipn | f_equal; exact H].
  - intros [pre ->]. rewrite app_length. apply andb_true_iff. split.
    + apply Nat.leb_le. lia.
    + replace (length pre + length suf - length suf) with (length pre + 0) by lia.
      rewrite skipn_app. rewrite Nat.add_0_r, skipn_all. simpl.
      replace (length pre - length pre) with 0 by lia. simpl. apply list_eqb_eq. reflexivity.
Qed.

Definition ends_in_dot_toml (name : list N) : Prop := exists pre, lower name = pre ++ dot_toml.

Lemma filter_spec e : notify e = true <-> N.testbit (ev_op e) 1 = true /\ ends_in_dot_toml (ev_name e).
Proof.
  unfold notify, notify_v, has_write, ends_in_dot_toml. rewrite andb_true_iff, has_suffix_spec. reflexivity.
Qed.

(* the same on the bytes of the name itself: the last five bytes are '.', 't'|'T', 'o'|'O', 'm'|'M', 'l'|'L' *)
Lemma lower_byte_cases b c : lower_byte b = c -> (b = c /\ (b <? 65) || (90 <? b) = true)%N \/ (c = b + 32 /\ 65 <= b <= 90)%N.
Proof.
  unfold lower_byte. destruct (65 <=? b)%N eqn:A; destruct (b <=? 90)%N eqn:B; simpl; intros <-.
  - right. apply N.leb_le in A, B. lia.
  - left. split; [reflexivity|]. apply N.leb_gt in B. apply orb_true_iff. right. apply N.ltb_lt. lia.
  - left. split; [reflexivity|]. apply N.leb_gt in A. apply orb_true_iff. left. apply N.ltb_lt. lia.
  - left. split; [reflexivity|]. apply N.leb_gt in A. apply orb_true_iff. left. apply N.ltb_lt. lia.
Qed.

Lemma map_eq_app_inv {A B : Type} (f : A -> B) l : forall a b, map f l = a ++ b ->
  exists l1 l2, l = l1 ++ l2 /\ map f l1 = a /\ map f l2 = b.
Proof.
  induction l as [|x l IH]; intros a b H.
  - destruct a; destruct b; try discriminate. exists [], []. auto.
  - destruct a as [|y a]; simpl in H.
    + exists [], (x :: l). auto.
    + inversion H; subst. destruct (IH a b H2) as (l1 & l2 & -> & <- & <-). exists (x :: l1), l2. auto.
Qed.

Definition is_letter (lo : N) (b : N) : Prop := (b = lo \/ b = lo - 32)%N.

Lemma filter_spec_bytes e : notify e = true <->
  N.testbit (ev_op e) 1 = true /\
  exists pre t o m l, ev_name e = pre ++ [46; t; o; m; l]%N /\
                      is_letter 116 t /\ is_letter 111 o /\ is_letter 109 m /\ is_letter 108 l.
Proof.
  rewrite filter_spec. unfold ends_in_dot_toml, lower, dot_toml, is_letter. split; intros [Hw H]; (split; [exact Hw|]).
  - destruct H as [pre H]. apply map_eq_app_inv in H. destruct H as (l1 & l2 & Hn & _ & H2).
    destruct l2 as [|d [|t [|o [|m [|l [|? ?]]]]]]; try discriminate. simpl in H2. injection H2 as Hd Ht Ho Hm Hl.
    exists l1, t, o, m, l.
    apply lower_byte_cases in Hd, Ht, Ho, Hm, Hl.
    assert (d = 46%N) by (destruct Hd as [[? _]|[? ?]]; lia). subst d.
    repeat split; try assumption;
      match goal with
      | H : _ \/ _ |- (?x = _ \/ _)%N => destruct H as [[? _]|[? ?]]; [left; congruence|right; lia]
      end.
  - destruct H as (pre & t & o & m & l & -> & Ht & Ho & Hm & Hl). exists (map lower_byte pre).
    rewrite map_app. f_equal. simpl.
    destruct Ht as [-> | ->], Ho as [-> | ->], Hm as [-> | ->], Hl as [-> | ->]; reflexivity.
Qed.

(* D19 (a): the repository's filter accepts "footoml"; D19 (b): it drops Write|Chmod on "a.toml" *)
Definition footoml : list N := [102; 111; 111; 116; 111; 109; 108]%N.
Definition a_toml : list N := [97; 46; 116; 111; 109; 108]%N.

Lemma suffix_refuted : notify_v false (mkEv OP_WRITE footoml) = true /\ notify (mkEv OP_WRITE footoml) = false /\
                       ~ ends_in_dot_toml footoml.
Proof.
  split; [reflexivity|]. split; [reflexivity|]. intros H.
  assert (E : notify (mkEv OP_WRITE footoml) = true) by (apply filter_spec; split; [reflexivity|exact H]).
  discriminate E.
Qed.

Lemma opmask_refuted : notify_v false (mkEv (OP_WRITE + OP_CHMOD) a_toml) = false /\
                       notify (mkEv (OP_WRITE + OP_CHMOD) a_toml) = true.
Proof. split; reflexivity. Qed.

(* ------------------------------------------------------------------------------------------- the transition system *)

Ltac inv_step H :=
  repeat match type of H with
         | context [match ?x with _ => _ end] =>
             first [is_var x; destruct x | let E := fresh "E" in destruct x eqn:E]; try discriminate H
         end;
  inversion H; subst; clear H.

Section Sys.
  Variable fixed : bool.
  Notation step := (step fixed).

  (* ---- the invariant: counting part (fields ci) and control part (fields s) *)
  Record Inv (s : state) : Prop := {
    ci_count : count_notified fixed (seen s) = delivered s + pending s + aborted s;
    ci_ab1 : aborted s <= 1;
    ci_ab0 : ctx_done s = false -> aborted s = 0;
    ci_abpc : aborted s = 1 -> fixed = true /\ (pc s = Returning \/ pc s = Done);
    ci_enq : enq s = seen s ++ got_list s ++ opt_list (rd s) ++ kq s ++ dropped s;
    ci_drop : reader s <> RExit -> dropped s = [];
    s_init : pc s = Init -> helper s = HNone /\ reader s = RNone;
    s_hr : helper s = HNone <-> reader s = RNone;
    s_rnone : reader s = RNone -> pc s = Init \/ pc s = Returning \/ pc s = Done;
    s_nrun : reader s <> RRun -> rd s = None /\ kq s = [];
    s_ec : events_closed s = true <-> reader s = RExit;
    s_rexit : reader s = RExit -> w_done s = true;
    s_wd : w_done s = true -> ctx_done s = true /\ (helper s = HWaitResp \/ helper s = HDone);
    s_hwr : helper s = HWaitResp -> w_done s = true;
    s_hd : helper s = HDone -> reader s = RExit;
    s_cc : change_closed s = true <-> pc s = Done;
    s_ret : pc s = Returning \/ pc s = Done -> reader s = RNone \/ ctx_done s = true;
    s_saw : saw_close s = true -> change_closed s = true }.

  Lemma count_app l e : count_notified fixed (l ++ [e]) = count_notified fixed l + (if notify_v fixed e then 1 else 0).
  Proof. unfold count_notified. rewrite filter_app, app_length. simpl. destruct (notify_v fixed e); reflexivity. Qed.

  Lemma inv_init : Inv init.
  Proof. constructor; simpl; try tauto; try discriminate; try lia; intuition (try discriminate; try congruence). Qed.

  Ltac fin := solve [ assumption | discriminate | congruence | lia | intuition (first [discriminate | congruence | lia]) ].

  Lemma inv_step s l s' : Inv s -> step s l = Some s' -> Inv s'.
  Proof.
    intros [C1 C2 C3 C4 C5 C6 I1 I2 I3 I4 I5 I6 I7 I8 I9 I10 I11 I12] H.
    destruct s; unfold pending, got_list in *; simpl in *.
    destruct l; unfold Watcher.step in H; simpl in H; inv_step H;
      try match goal with E : _ && _ = true |- _ => apply andb_true_iff in E; destruct E as [? ?]; subst end;
      try match goal with |- Inv (mkSt _ _ Returning _ _ _ _ _ _ _ _ _ _ _ (S ?a)) =>
            assert (a = 0) by (destruct (Nat.eq_dec a 1) as [A|A]; [destruct (C4 A) as [_ [X|X]]; discriminate X | lia]); subst a end;
      try match goal with |- Inv (mkSt (_ ++ [_]) _ _ _ _ _ _ _ _ _ _ _ ?d _ _) =>
            assert (d = []) by (apply C6; discriminate); subst d end.
    all: constructor; unfold pending, got_list; simpl in *;
      try (rewrite ?count_app; try rewrite E; simpl; lia);
      try (repeat rewrite <- app_assoc; reflexivity);
      try fin.
  Qed.

  Lemma inv_reachable s : reachable step init s -> Inv s.
  Proof. induction 1; [apply inv_init | eapply inv_step; eauto]. Qed.

  Lemma filter_length_app (l1 l2 : list event) :
    count_notified fixed (l1 ++ l2) = count_notified fixed l1 + count_notified fixed l2.
  Proof. unfold count_notified. rewrite filter_app, app_length. reflexivity. Qed.

  (* C19_every_write_notified *)
  Lemma every_write_notified s : reachable step init s ->
    count_notified fixed (seen s) = delivered s + pending s + aborted s /\
    aborted s <= 1 /\ (ctx_done s = false -> aborted s = 0 /\ dropped s = []) /\
    enq s = seen s ++ got_list s ++ opt_list (rd s) ++ kq s ++ dropped s /\
    delivered s <= count_notified fixed (enq s).
  Proof.
    intros R. pose proof (inv_reachable s R) as I. destruct I.
    split; [assumption|]. split; [assumption|]. split.
    - intros Hc. split; [auto|]. apply ci_drop0. intros Hr. apply s_rexit0 in Hr. apply s_wd0 in Hr. destruct Hr; congruence.
    - split; [assumption|]. rewrite ci_enq0, filter_length_app. lia.
  Qed.

  (* ---- the ranking function decreases on every step that is not new input *)
  Lemma measure_decreases s l s' : step s l = Some s' -> no_input l = true -> measure s' < measure s.
  Proof.
    intros H Hl. destruct s; unfold measure; simpl in *.
    destruct l; try discriminate Hl; unfold Watcher.step in H; simpl in H; inv_step H; simpl;
      try match goal with E : _ && _ = true |- _ => apply andb_true_iff in E; destruct E as [? E2]; subst;
                                                     try (apply negb_true_iff in E2; subst) end;
      simpl; try rewrite app_length; simpl; try lia;
      repeat match goal with |- context [if ?b then _ else _] => destruct b end; simpl; try lia;
      repeat match goal with |- context [opt_list ?o] => destruct o end; simpl; lia.
  Qed.

  Lemma run_bounded s ls s' : exec step s ls s' -> Forall (fun l => no_input l = true) ls ->
    length ls + measure s' <= measure s.
  Proof.
    induction 1 as [s|s l s1 ls s2 Hs He IH]; intros F; simpl; [lia|].
    inversion F; subst. specialize (IH H2). pose proof (measure_decreases _ _ _ Hs H1). lia.
  Qed.

  Lemma reachable_exec s ls s' : reachable step init s -> exec step s ls s' -> reachable step init s'.
  Proof. intros R E. induction E; [assumption|]. apply IHE. eapply reach_step; eauto. Qed.

  Lemma ctx_done_mono s l s' : step s l = Some s' -> ctx_done s = true -> ctx_done s' = true.
  Proof.
    intros H Hc. destruct s; simpl in *. subst.
    destruct l; unfold Watcher.step in H; simpl in H; inv_step H; reflexivity.
  Qed.

  Lemma ctx_done_exec s ls s' : exec step s ls s' -> ctx_done s = true -> ctx_done s' = true.
  Proof. induction 1; intros; [assumption|]. apply IHexec. eapply ctx_done_mono; eauto. Qed.

  (* ---- without cancellation and with a consumer that takes every hand-off, a state in which neither the system nor
     the consumer can move has processed every event the kernel queued: the pipeline is empty and the consumer has
     received exactly one notification per accepted event *)
  Lemma quiescent_drained s : Inv s -> ctx_done s = false -> reader s = RRun ->
    (forall l, no_input l = true -> step s l = None) ->
    drained s /\ seen s = enq s /\ delivered s = count_notified fixed (enq s).
  Proof.
    intros I Hc Hr Q. destruct I. unfold drained.
    assert (Hw : w_done s = false).
    { destruct (w_done s) eqn:W; [|reflexivity]. destruct (s_wd0 eq_refl). congruence. }
    assert (Hd : dropped s = []) by (apply ci_drop0; congruence).
    assert (Hpc : pc s = Ranging).
    { destruct (pc s) eqn:P; try reflexivity; exfalso.
      - destruct (s_init0 eq_refl). congruence.
      - specialize (Q Filter eq_refl). unfold Watcher.step in Q. rewrite P in Q. discriminate.
      - specialize (Q Read eq_refl). unfold Watcher.step in Q. rewrite P in Q. discriminate.
      - destruct (s_ret0 (or_introl eq_refl)); congruence.
      - destruct (s_ret0 (or_intror eq_refl)); congruence. }
    assert (Hrd : rd s = None).
    { destruct (rd s) eqn:Rd; [|reflexivity]. specialize (Q Recv eq_refl). unfold Watcher.step in Q.
      rewrite Hpc, Rd in Q. discriminate. }
    assert (Hk : kq s = []).
    { destruct (kq s) eqn:K; [reflexivity|]. specialize (Q FsRead eq_refl). unfold Watcher.step in Q.
      rewrite Hr, Hrd, K in Q. discriminate. }
    assert (Hs : seen s = enq s).
    { rewrite ci_enq0. unfold got_list. rewrite Hpc, Hrd, Hk, Hd. simpl. rewrite app_nil_r. reflexivity. }
    repeat split; try assumption.
    rewrite <- Hs, ci_count0. unfold pending. rewrite Hpc. rewrite (ci_ab3 Hc). lia.
  Qed.

  Lemma all_delivered s : reachable step init s -> ctx_done s = false -> reader s = RRun ->
    forall ls s', exec step s ls s' -> Forall (fun l => no_input l = true) ls ->
      length ls <= measure s /\
      ((forall l, no_input l = true -> step s' l = None) ->
       drained s' /\ seen s' = enq s /\ delivered s' = count_notified fixed (enq s)).
  Proof.
    intros R Hc Hr ls s' E F. split.
    - pose proof (run_bounded _ _ _ E F). lia.
    - intros Q.
      assert (Hw : w_done s = false).
      { destruct (w_done s) eqn:W; [|reflexivity]. destruct (s_wd s (inv_reachable s R) W). congruence. }
      assert (K : ctx_done s' = false /\ w_done s' = false /\ reader s' = RRun /\ enq s' = enq s).
      { clear Q R. induction E as [s|s l s1 ls s2 Hs He IH]; [auto|].
        inversion F; subst.
        assert (ctx_done s1 = false /\ w_done s1 = false /\ reader s1 = RRun /\ enq s1 = enq s).
        { destruct s; simpl in *. subst.
          destruct l; try discriminate H1; unfold Watcher.step in Hs; simpl in Hs; inv_step Hs; simpl; auto. }
        destruct H as (A & W & B & C). destruct (IH A B H2 W) as (A' & W' & B' & C'). rewrite C'. auto. }
      destruct K as (A & _ & B & C). rewrite <- C.
      apply quiescent_drained; auto. apply inv_reachable. eapply reachable_exec; eauto.
  Qed.
End Sys.

(* ---- shutdown of the fixed code: a state after cancel in which no system step is enabled is completely shut down *)
Lemma quiescent_finished s : Inv true s -> ctx_done s = true ->
  (forall l, is_system l = true -> step true s l = None) -> finished s.
Proof.
  intros I Hc Q. unfold finished.
  assert (Hpc : pc s = Done).
  { destruct (pc s) eqn:P; try reflexivity; exfalso.
    - specialize (Q StartOk eq_refl). unfold step in Q. rewrite P in Q. discriminate.
    - (* Ranging *)
      destruct (rd s) eqn:Rd.
      { specialize (Q Recv eq_refl). unfold step in Q. rewrite P, Rd in Q. discriminate. }
      destruct (events_closed s) eqn:Ec.
      { specialize (Q RangeEnd eq_refl). unfold step in Q. rewrite P, Rd, Ec in Q. discriminate. }
      destruct (reader s) eqn:Rr.
      + destruct I. clear Q. intuition congruence.
      + destruct (w_done s) eqn:W.
        * specialize (Q ReaderExit eq_refl). unfold step in Q. rewrite Rr, W in Q. discriminate.
        * destruct (helper s) eqn:Hh.
          -- destruct I. clear Q. intuition congruence.
          -- specialize (Q HelperClose eq_refl). unfold step in Q. rewrite Hh, Hc in Q. discriminate.
          -- destruct I. clear Q. intuition congruence.
          -- destruct I. clear Q. intuition congruence.
      + destruct I. clear Q. intuition congruence.
    - specialize (Q Filter eq_refl). unfold step in Q. rewrite P in Q. discriminate.
    - specialize (Q SendAbort eq_refl). unfold step in Q. rewrite P, Hc in Q. discriminate.
    - specialize (Q CloseChange eq_refl). unfold step in Q. rewrite P in Q. discriminate. }
  split; [assumption|]. split; [apply (s_cc _ _ I); assumption|].
  destruct (helper s) eqn:Hh.
  - split; [auto|]. right. destruct I. clear Q. intuition congruence.
  - specialize (Q HelperClose eq_refl). unfold step in Q. rewrite Hh, Hc in Q. discriminate.
  - exfalso. assert (W : w_done s = true) by (destruct I; clear Q; intuition congruence).
    destruct (reader s) eqn:Rr.
    + destruct I. clear Q. intuition congruence.
    + specialize (Q ReaderExit eq_refl). unfold step in Q. rewrite Rr, W in Q. discriminate.
    + specialize (Q HelperDone eq_refl). unfold step in Q. rewrite Hh, Rr in Q. discriminate.
  - split; [auto|]. left. destruct I. clear Q. intuition congruence.
Qed.

(* C19_shutdown *)
Lemma shutdown s : reachable (step true) init s -> ctx_done s = true ->
  forall ls s', exec (step true) s ls s' -> Forall (fun l => no_input l = true) ls ->
    length ls <= measure s /\
    ((forall l, is_system l = true -> step true s' l = None) -> finished s').
Proof.
  intros R Hc ls s' E F. split.
  - pose proof (run_bounded true _ _ _ E F). lia.
  - apply quiescent_finished.
    + apply inv_reachable. eapply reachable_exec; eauto.
    + eapply ctx_done_exec; eauto.
Qed.

(* progress form: after cancel, as long as the watcher is not completely shut down some system step is enabled *)
Lemma shutdown_progress s : reachable (step true) init s -> ctx_done s = true -> ~ finished s ->
  exists l, is_system l = true /\ step true s l <> None.
Proof.
  intros R Hc NF.
  assert (D : forall l, {step true s l = None} + {step true s l <> None}).
  { intros l. destruct (step true s l); [right; discriminate | left; reflexivity]. }
  destruct (D StartOk); [|eexists; split; [|eassumption]; reflexivity].
  destruct (D StartFail); [|eexists; split; [|eassumption]; reflexivity].
  destruct (D FsRead); [|eexists; split; [|eassumption]; reflexivity].
  destruct (D Recv); [|eexists; split; [|eassumption]; reflexivity].
  destruct (D Filter); [|eexists; split; [|eassumption]; reflexivity].
  destruct (D SendAbort); [|eexists; split; [|eassumption]; reflexivity].
  destruct (D RangeEnd); [|eexists; split; [|eassumption]; reflexivity].
  destruct (D CloseChange); [|eexists; split; [|eassumption]; reflexivity].
  destruct (D HelperClose); [|eexists; split; [|eassumption]; reflexivity].
  destruct (D ReaderExit); [|eexists; split; [|eassumption]; reflexivity].
  destruct (D HelperDone); [|eexists; split; [|eassumption]; reflexivity].
  exfalso. apply NF. apply quiescent_finished; [apply inv_reachable; assumption | assumption |].
  intros l Hl. destruct l; try discriminate Hl; assumption.
Qed.

(* ---- D19 (c): the repository's code, cancel while the hand-off is pending and nobody reads *)
Lemma run_trace_reachable fixed ls : forall s s', reachable (step fixed) init s -> run_trace fixed s ls = Some s' ->
  reachable (step fixed) init s'.
Proof.
  induction ls as [|l ls IH]; simpl; intros s s' R H.
  - inversion H; subst. assumption.
  - destruct (step fixed s l) eqn:E; [|discriminate]. eapply IH; [|eassumption]. eapply reach_step; eauto.
Qed.

Definition toml_write : event := mkEv OP_WRITE a_toml.
Definition stuck_trace : list label :=
  [StartOk; KernelEvent toml_write; FsRead; Recv; Filter; Cancel; HelperClose; ReaderExit; HelperDone].
Definition stuck_state : state :=
  mkSt [] None Sending HDone RExit true true true false false [toml_write] [toml_write] [] 0 0.

Lemma stuck_trace_runs fixed : run_trace fixed init stuck_trace = Some stuck_state.
Proof. destruct fixed; reflexivity. Qed.

Lemma shutdown_stuck_refuted :
  exists s, reachable (step false) init s /\ ctx_done s = true /\ pending s = 1 /\
            (forall l, is_system l = true -> step false s l = None) /\
            change_closed s = false /\ pc s <> Done /\
            (* only a read by the consumer can release it *) step false s Read <> None.
Proof.
  exists stuck_state. split.
  - eapply run_trace_reachable; [apply reach_init | apply stuck_trace_runs].
  - repeat split; try reflexivity; try discriminate.
    intros l Hl. destruct l; try discriminate Hl; reflexivity.
Qed.
