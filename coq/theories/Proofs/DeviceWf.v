(* C05: every emitted message is a well-formed three-byte channel message.  No alternation hypothesis. *)
From Coq Require Import List NArith ZArith Bool Lia.
From HIDI Require Import Base.AList Model.Device Proofs.DeviceBasics Proofs.Recv.
Import ListNotations.
Open Scope N_scope.

(* the statement of the property: Note Off / Note On / Control Change / Pitch Bend status with a channel nibble,
   two data bytes in 0..127 *)
Definition wf_msg (m : msg) : Prop :=
  exists ty ch d1 d2, m = [ty + ch; d1; d2] /\ In ty [128; 144; 176; 224] /\ ch < 16 /\ d1 < 128 /\ d2 < 128.

Lemma lor_status ty ch : In ty [128; 144; 176; 224] -> ch < 16 -> N.lor ty ch = ty + ch.
Proof.
  assert (H : forallb (fun ty => forallb (fun ch => N.lor ty ch =? ty + ch) (nrange 0 16)) [128; 144; 176; 224] = true)
    by (vm_compute; reflexivity).
  intros Hty Hch. rewrite forallb_forall in H. specialize (H ty Hty). rewrite forallb_forall in H.
  apply N.eqb_eq. apply H. apply in_nrange; simpl; lia.
Qed.

Lemma wf_event ty ch d1 d2 :
  In ty [128; 144; 176; 224] -> ch < 16 -> d1 < 128 -> d2 < 128 -> wf_msg [N.lor ty ch; d1; d2].
Proof. intros. rewrite lor_status by assumption. exists ty, ch, d1, d2. auto. Qed.

Lemma wf_msgb_sound m : wf_msgb m = true -> wf_msg m.
Proof.
  destruct m as [|st [|d1 [|d2 [|x r]]]]; cbn [wf_msgb]; try discriminate.
  rewrite !andb_true_iff. intros [[[[H1 H2] H3] H4] H5].
  apply N.leb_le in H2. apply N.ltb_lt in H3, H4, H5.
  assert (G : forallb (fun st => negb (mem N.eqb (N.land st 240) [128; 144; 176; 224]) ||
                                 ((N.land st 240 + N.land st 15 =? st) && (N.land st 15 <? 16)))
                      (nrange 128 128) = true) by (vm_compute; reflexivity).
  rewrite forallb_forall in G. specialize (G st ltac:(apply in_nrange; simpl; lia)).
  rewrite H1 in G. cbn [negb orb] in G. apply andb_true_iff in G. destruct G as [G1 G2].
  apply N.eqb_eq in G1. apply N.ltb_lt in G2.
  exists (N.land st 240), (N.land st 15), d1, d2. rewrite G1. repeat split; try assumption.
  apply (mem_in N.eqb Neqb_spec) in H1. exact H1.
Qed.

(* ------------------------------------------------------------------ state well-formedness *)
Record Wf (s : state) : Prop := mkWf {
  wf_channel : channel s < 16;
  wf_velocity : velocity s < 128;
  wf_noteT : forall k p, In (k, p) (noteT s) -> snd p < 16 /\ fst p < 128;
  wf_analogT : forall i p, In (i, p) (analogT s) -> snd p < 16 /\ fst p < 128
}.

(* what the parser guarantees and the device relies on *)
Definition wf_defaults (c : config) : Prop := (1 <= d_channel c <= 16)%Z /\ (0 <= d_velocity c <= 127)%Z.

Definition wf_sample (sa : sample) : Prop :=
  a_cc (sa_an sa) < 128 /\ a_ccneg (sa_an sa) < 128 /\ sa_ccv sa < 128 /\ sa_lsb sa < 128 /\ sa_msb sa < 128.

Definition wf_ev (e : ev) : Prop := match e with ESample sa => wf_sample sa | _ => True end.

Lemma init_Wf c : wf_defaults c -> Wf (init c).
Proof.
  intros [[H1 H2] [H3 H4]]. constructor; cbn.
  - unfold u8. rewrite Z.mod_small by lia. lia.
  - unfold u8. rewrite Z.mod_small by lia. lia.
  - intros k p [].
  - intros i p [].
Qed.

Definition KeepsW (s : state) (r : state * list msg) : Prop :=
  Wf s -> Wf (fst r) /\ Forall wf_msg (snd r).

Lemma keepsW_seq s f g :
  KeepsW s (f s) -> KeepsW (fst (f s)) (g (fst (f s))) ->
  KeepsW s (let '(s1, m1) := f s in let '(s2, m2) := g s1 in (s2, m1 ++ m2)).
Proof.
  intros Hf Hg HW. destruct (f s) as [s1 m1]. cbn [fst snd] in *. destruct (g s1) as [s2 m2]. cbn [fst snd] in *.
  destruct (Hf HW) as [W1 F1]. destruct (Hg W1) as [W2 F2]. split; [exact W2|apply Forall_app; auto].
Qed.

Lemma keepsW_id s : KeepsW s (s, []).
Proof. intro H. split; [exact H|constructor]. Qed.

Lemma wf_note_on ch n v : ch < 16 -> n < 128 -> v < 128 -> wf_msg (note_on ch n v).
Proof. intros. apply wf_event; cbn; auto. Qed.
Lemma wf_note_off ch n : ch < 16 -> n < 128 -> wf_msg (note_off ch n).
Proof. intros. apply wf_event; cbn; auto. reflexivity. Qed.
Lemma wf_cc ch fn v : ch < 16 -> fn < 128 -> v < 128 -> wf_msg (cc_event ch fn v).
Proof. intros. apply wf_event; cbn; auto. Qed.
Lemma wf_pb ch a b : ch < 16 -> a < 128 -> b < 128 -> wf_msg (pb_event ch a b).
Proof. intros. apply wf_event; cbn; auto. Qed.

Lemma in_midi_range_spec' z : in_midi_range z = true -> (0 <= z <= 127)%Z.
Proof. unfold in_midi_range. rewrite andb_true_iff, !Z.leb_le. tauto. Qed.

Lemma Wf_bump p d s : Wf (bump p d s) <-> Wf s.
Proof. split; intros [H1 H2 H3 H4]; constructor; assumption. Qed.

Lemma note_on_key_keepsW c s sub code : KeepsW s (note_on_key c s sub code).
Proof.
  intros HW. unfold note_on_key. destruct (find_key c s sub code) as [k|]; [|split; [exact HW|constructor]].
  destruct (in_midi_range (transpose s (k_note k))) eqn:Er; [|split; [exact HW|constructor]].
  apply in_midi_range_spec' in Er.
  set (note := Z.to_N (transpose s (k_note k))). set (ch := chan_of s (k_off k)).
  assert (Hn : note < 128) by (subst note; lia). assert (Hc : ch < 16) by apply chan_of_lt.
  destruct HW as [W1 W2 W3 W4]. cbn [fst snd]. split.
  - apply Wf_bump. constructor; cbn [channel velocity noteT analogT set_noteT]; try assumption.
    intros k0 p0 Hin. unfold set in Hin. destruct Hin as [Hin|Hin].
    + injection Hin as <- <-. cbn. auto.
    + apply (in_del N.eqb Neqb_spec) in Hin. apply (W3 k0). tauto.
  - pose proof (wf_note_on ch note (velocity s) Hc Hn W2) as On.
    pose proof (wf_note_off ch note Hc Hn) as Off.
    destruct (cmode_of c); try destruct (0 <? _)%Z; repeat constructor; assumption.
Qed.

Lemma note_off_key_keepsW c s code : KeepsW s (note_off_key c s code).
Proof.
  intros HW. unfold note_off_key.
  destruct (get N.eqb code (noteT s)) as [[note ch]|] eqn:Eg; [|split; [exact HW|constructor]].
  destruct HW as [W1 W2 W3 W4].
  destruct (W3 _ _ (get_some_in N.eqb Neqb_spec _ _ _ Eg)) as [Hc Hn]. cbn in Hc, Hn. cbn [fst snd]. split.
  - apply Wf_bump. constructor; cbn [channel velocity noteT analogT set_noteT]; try assumption.
    intros k0 p0 Hin. apply (in_del N.eqb Neqb_spec) in Hin. apply (W3 k0). tauto.
  - pose proof (wf_note_off ch note Hc Hn) as Off.
    destruct (cmode_of c); try destruct (_ =? 1)%Z; repeat constructor; assumption.
Qed.

Lemma analog_note_on_keepsW s id note off : KeepsW s (analog_note_on s id note off).
Proof.
  intros HW. unfold analog_note_on.
  destruct (in_midi_range (transpose s note)) eqn:Er; [|split; [exact HW|constructor]].
  apply in_midi_range_spec' in Er.
  set (n := Z.to_N (transpose s note)). set (ch := chan_of s off).
  assert (Hn : n < 128) by (subst n; lia). assert (Hc : ch < 16) by apply chan_of_lt.
  destruct HW as [W1 W2 W3 W4]. cbn [fst snd]. split.
  - constructor; cbn [channel velocity noteT analogT set_analogT]; try assumption.
    intros i p Hin. unfold set in Hin. destruct Hin as [Hin|Hin].
    + injection Hin as <- <-. cbn. auto.
    + apply (in_del aid_eqb aid_eqb_spec) in Hin. apply (W4 i). tauto.
  - repeat constructor. apply wf_note_on; [exact Hc|exact Hn|reflexivity].
Qed.

Lemma analog_note_off_keepsW s id : KeepsW s (analog_note_off s id).
Proof.
  intros HW. unfold analog_note_off.
  destruct (get aid_eqb id (analogT s)) as [[n ch]|] eqn:Eg; [|split; [exact HW|constructor]].
  destruct HW as [W1 W2 W3 W4].
  destruct (W4 _ _ (get_some_in aid_eqb aid_eqb_spec _ _ _ Eg)) as [Hc Hn]. cbn in Hc, Hn. cbn [fst snd]. split.
  - constructor; cbn [channel velocity noteT analogT set_analogT]; try assumption.
    intros i p Hin. apply (in_del aid_eqb aid_eqb_spec) in Hin. apply (W4 i). tauto.
  - repeat constructor. apply wf_note_off; assumption.
Qed.

Lemma wf_burst ch : ch < 16 -> Forall wf_msg (panic_burst ch).
Proof.
  intro H. unfold panic_burst. constructor.
  - apply wf_cc; [exact H|reflexivity|reflexivity].
  - apply Forall_forall. intros m Hm. apply in_map_iff in Hm. destruct Hm as (n&<-&Hn).
    apply in_seq in Hn. apply wf_event; [cbn; auto|exact H|lia|reflexivity].
Qed.

Lemma invoke_press_keepsW c a s : KeepsW s (invoke_press c a s).
Proof.
  intros [W1 W2 W3 W4]. destruct a; cbn [invoke_press fst snd];
    repeat match goal with |- context [if ?b then _ else _] => destruct b eqn:? end;
    (split; [constructor; cbn; try assumption|try constructor]).
  - (* channel up *)
    match goal with H : (channel s =? 15) = false |- _ => apply N.eqb_neq in H end.
    rewrite N.mod_small by lia. lia.
  - (* channel down *) lia.
  - apply wf_cc; [exact W1|reflexivity|reflexivity].
  - apply Forall_forall. intros m Hm. apply in_map_iff in Hm. destruct Hm as (n&<-&Hn).
    apply in_seq in Hn. apply wf_event; [cbn; auto|exact W1|lia|reflexivity].
Qed.

Lemma Wf_eq s s' :
  channel s' = channel s -> velocity s' = velocity s -> noteT s' = noteT s -> analogT s' = analogT s -> Wf s -> Wf s'.
Proof. intros E1 E2 E3 E4 [W1 W2 W3 W4]. constructor; rewrite ?E1, ?E2, ?E3, ?E4; assumption. Qed.

Lemma invoke_release_Wf a s : Wf s -> Wf (invoke_release a s).
Proof. destruct a; cbn; auto. apply Wf_eq; reflexivity. Qed.

Lemma check_double_Wf s s' : check_double s = Some s' -> Wf s -> Wf s'.
Proof.
  unfold check_double. repeat match goal with |- context [if ?b then _ else _] => destruct b end;
    intro H; try discriminate; injection H as <-; intros [W1 W2 W3 W4]; constructor; cbn; try assumption; lia.
Qed.

Lemma handle_cc_keepsW s sa : wf_sample sa -> KeepsW s (handle_cc s sa).
Proof.
  intros (S1&S2&S3&_) HW. unfold handle_cc.
  pose proof (chan_of_lt s (a_off (sa_an sa))) as Hc. pose proof (chan_of_lt s (a_offneg (sa_an sa))) as Hcn.
  assert (Z0 : (0 : N) < 128) by lia.
  destruct (a_bidi (sa_an sa)); [destruct (sa_neg sa)|].
  - destruct (cc_zeroed s (a_cc (sa_an sa))); cbn [fst snd];
      (split; [apply (Wf_eq s); try reflexivity; exact HW|repeat constructor; apply wf_cc; assumption]).
  - destruct (cc_zeroed s (a_ccneg (sa_an sa))); cbn [fst snd];
      (split; [apply (Wf_eq s); try reflexivity; exact HW|repeat constructor; apply wf_cc; assumption]).
  - cbn [fst snd]. split; [exact HW|repeat constructor; apply wf_cc; assumption].
Qed.

Lemma handle_keysim_keepsW s sa : KeepsW s (handle_keysim s sa).
Proof.
  unfold handle_keysim. destruct (sa_zone sa).
  - apply (keepsW_seq s
             (fun s => match get aid_eqb (sa_code sa, true) (analogT s) with
                       | Some _ => (s, [])
                       | None => if a_bidi (sa_an sa) then analog_note_on s (sa_code sa, true) (a_noteneg (sa_an sa)) (a_offneg (sa_an sa)) else (s, [])
                       end)
             (fun s1 => analog_note_off s1 (sa_code sa, false))).
    + destruct (get aid_eqb (sa_code sa, true) (analogT s)); [apply keepsW_id|].
      destruct (a_bidi (sa_an sa)); [apply analog_note_on_keepsW|apply keepsW_id].
    + apply analog_note_off_keepsW.
  - apply (keepsW_seq s (fun s => analog_note_off s (sa_code sa, false)) (fun s1 => analog_note_off s1 (sa_code sa, true)));
      apply analog_note_off_keepsW.
  - apply (keepsW_seq s
             (fun s => match get aid_eqb (sa_code sa, false) (analogT s) with
                       | Some _ => (s, [])
                       | None => analog_note_on s (sa_code sa, false) (a_note (sa_an sa)) (a_off (sa_an sa))
                       end)
             (fun s1 => analog_note_off s1 (sa_code sa, true))).
    + destruct (get aid_eqb (sa_code sa, false) (analogT s)); [apply keepsW_id|apply analog_note_on_keepsW].
    + apply analog_note_off_keepsW.
  - apply keepsW_id.
Qed.

Lemma Wf_actionT s l : Wf s <-> Wf (set_actionT l s).
Proof. split; intros [W1 W2 W3 W4]; constructor; assumption. Qed.
Lemma Wf_keyT s l : Wf s <-> Wf (set_keyT l s).
Proof. split; intros [W1 W2 W3 W4]; constructor; assumption. Qed.

Lemma handle_actionsim_keepsW c s sa : KeepsW s (handle_actionsim c s sa).
Proof.
  intro HW. unfold handle_actionsim. destruct (check_double s) as [s'|] eqn:E.
  - split; [apply (check_double_Wf _ _ E HW)|constructor].
  - destruct (sa_zone sa).
    + destruct (invoke_press_keepsW c (a_actneg (sa_an sa)) s HW) as [W F].
      destruct (invoke_press c (a_actneg (sa_an sa)) s) as [s1 m]. cbn [fst snd] in *. split; [|exact F].
      unfold untrack_action, track_action. apply Wf_actionT. apply invoke_release_Wf. apply Wf_actionT. exact W.
    + cbn [fst snd]. split; [|constructor]. unfold untrack_action.
      apply Wf_actionT. apply Wf_actionT. apply invoke_release_Wf. apply invoke_release_Wf. exact HW.
    + destruct (invoke_press_keepsW c (a_act (sa_an sa)) s HW) as [W F].
      destruct (invoke_press c (a_act (sa_an sa)) s) as [s1 m]. cbn [fst snd] in *. split; [|exact F].
      unfold untrack_action, track_action. apply invoke_release_Wf. apply Wf_actionT. apply Wf_actionT. exact W.
    + split; [exact HW|constructor].
Qed.

Lemma handle_sample_keepsW c s sa :
  wf_sample sa -> KeepsW s (fst (handle_sample c s sa), midi (snd (handle_sample c s sa))).
Proof.
  intros HS HW. unfold handle_sample. destruct (learning s && negb (sa_gate sa)); [split; [exact HW|constructor]|].
  destruct (a_type (sa_an sa)).
  - pose proof (handle_cc_keepsW s sa HS HW) as K. destruct (handle_cc s sa). exact K.
  - cbn [fst snd midi emit]. split; [exact HW|]. repeat constructor.
    destruct HS as (_&_&_&S4&S5). apply wf_pb; [apply chan_of_lt|assumption|assumption].
  - pose proof (handle_keysim_keepsW s sa HW) as K. destruct (handle_keysim s sa). exact K.
  - pose proof (handle_actionsim_keepsW c s sa HW) as K. destruct (handle_actionsim c s sa). exact K.
  - split; [exact HW|constructor].
Qed.

Lemma handle_key_keepsW c s sub code val :
  KeepsW s (fst (handle_key c s sub code val), midi (snd (handle_key c s sub code val))).
Proof.
  intro HW. unfold handle_key.
  set (s1 := if (val =? 1)%Z then set_keyT (sadd N.eqb code (keyT s)) s else set_keyT (srem N.eqb code (keyT s)) s).
  assert (HW1 : Wf s1) by (subst s1; destruct (val =? 1)%Z; apply Wf_keyT; exact HW).
  clearbody s1.
  destruct ((val =? 1)%Z && exit_complete c (keyT s1)); [split; [exact HW1|constructor]|].
  destruct (find_action c code) as [a|].
  - destruct (val =? 1)%Z.
    + destruct (check_double _) as [s3|] eqn:E.
      * split; [|constructor]. apply (check_double_Wf _ _ E). apply Wf_actionT. exact HW1.
      * pose proof (invoke_press_keepsW c a (set_actionT (sadd action_eqb a (actionT s1)) s1)) as K.
        destruct (invoke_press c a _) as [s3 m]. cbn [fst snd midi emit] in *. apply K. apply Wf_actionT. exact HW1.
    + destruct (val =? 0)%Z; [|split; [exact HW1|constructor]]. cbn [fst snd midi silent].
      split; [|constructor]. apply Wf_actionT. apply invoke_release_Wf. exact HW1.
  - destruct (find_key c s sub code).
    + destruct (val =? 1)%Z.
      * pose proof (note_on_key_keepsW c s1 sub code HW1) as K. destruct (note_on_key c s1 sub code). exact K.
      * destruct (val =? 0)%Z; [|split; [exact HW1|constructor]].
        pose proof (note_off_key_keepsW c s1 code HW1) as K. destruct (note_off_key c s1 code). exact K.
    + destruct (val =? 0)%Z; [|split; [exact HW1|constructor]].
      pose proof (note_off_key_keepsW c s1 code HW1) as K. destruct (note_off_key c s1 code). exact K.
Qed.

Lemma step_Wf c s e :
  wf_ev e -> Wf s -> Wf (fst (step c s e)) /\ Forall wf_msg (midi (snd (step c s e))).
Proof.
  intros He HW. destruct e as [sub code val|sa|]; cbn [step].
  - destruct (val =? 2)%Z; [split; [exact HW|constructor]|]. apply (handle_key_keepsW c s sub code val HW).
  - apply (handle_sample_keepsW c s sa He HW).
  - split; [exact HW|constructor].
Qed.

Lemma run_from_Wf c h : forall s,
  Forall wf_ev h -> Wf s -> Wf (fst (run_from c s h)) /\ Forall wf_msg (all_midi (snd (run_from c s h))).
Proof.
  induction h as [|e r IH]; intros s He HW; cbn [run_from].
  - split; [exact HW|constructor].
  - inversion He as [|? ? H1 H2]; subst. destruct (step_Wf c s e H1 HW) as [W1 F1].
    destruct (step c s e) as [s1 o]. cbn [fst snd] in *. destruct (IH s1 H2 W1) as [W2 F2].
    destruct (run_from c s1 r) as [s2 os]. cbn [fst snd] in *. split; [exact W2|].
    unfold all_midi. cbn [flat_map]. apply Forall_app. split; assumption.
Qed.

Lemma cleanup_keys_keepsW c l : forall s, KeepsW s (cleanup_keys c s l).
Proof.
  induction l as [|k r IH]; intro s; cbn [cleanup_keys]; [apply keepsW_id|].
  apply (keepsW_seq s (fun s => note_off_key c s k) (fun s1 => cleanup_keys c s1 r)); [apply note_off_key_keepsW|apply IH].
Qed.
Lemma cleanup_analog_keepsW l : forall s, KeepsW s (cleanup_analog s l).
Proof.
  induction l as [|k r IH]; intro s; cbn [cleanup_analog]; [apply keepsW_id|].
  apply (keepsW_seq s (fun s => analog_note_off s k) (fun s1 => cleanup_analog s1 r)); [apply analog_note_off_keepsW|apply IH].
Qed.

Lemma cleanup_Wf c s : Wf s -> Forall wf_msg (snd (cleanup c s)).
Proof.
  intro HW. unfold cleanup.
  destruct (cleanup_keys_keepsW c (keys (noteT s)) s HW) as [W1 F1].
  destruct (cleanup_keys c s (keys (noteT s))) as [s1 m1]. cbn [fst snd] in *.
  destruct (cleanup_analog_keepsW (keys (analogT s1)) s1 W1) as [W2 F2].
  destruct (cleanup_analog s1 (keys (analogT s1))) as [s2 m2]. cbn [fst snd] in *.
  apply Forall_app. split; assumption.
Qed.

Lemma all_wf c h :
  wf_defaults c -> Forall wf_ev h ->
  Forall wf_msg (all_midi (snd (run c h)) ++ snd (cleanup c (fst (run c h)))) /\ channel (fst (run c h)) < 16.
Proof.
  intros Hc He. destruct (run_from_Wf c h (init c) He (init_Wf c Hc)) as [W F]. fold (run c h) in W, F.
  split; [apply Forall_app; split; [exact F|apply cleanup_Wf; exact W]|apply (wf_channel _ W)].
Qed.

(* D2: with a default channel outside 1..16 (accepted by the unfixed parser) Panic emits a malformed status byte *)
Lemma default_channel_zero_refuted :
  let c := {| mappings := [empty_mapping]; actions := [(1, Panic)]; exitseq := []; cmode_of := COff;
              d_octave := 0; d_semitone := 0; d_channel := 0; d_mapping := 0; d_velocity := 64 |} in
  hd [] (all_midi (snd (run c [EKey 0 1 1]))) = [255; 123; 0] /\ wf_msgb [255; 123; 0] = false.
Proof. vm_compute. split; reflexivity. Qed.
