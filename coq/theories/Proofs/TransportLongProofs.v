(* Facts about the compact notation of Run/TransportLongRun.v (C15, long sessions): the expansion of a run has the stated
   length and is the counting sequence; the tagged message [cmsg k j] determines (k, j) for k < 16 and j < 81920 and carries
   its emitter in [msg_tag]; hence comparing expanded message lists with the monitors of Run/TransportRun.v is comparing
   (emitter, counter) sequences. *)
From Coq Require Import List NArith Bool Arith Lia.
From HIDI Require Import Run.TransportRun Run.TransportLongRun.
Import ListNotations.
Local Open Scope N_scope.

Lemma nrange_length : forall n s, length (nrange s n) = n.
Proof. induction n; intros; simpl; auto. Qed.

Lemma nrange_nth : forall n s i, (i < n)%nat -> nth i (nrange s n) 0 = s + N.of_nat i.
Proof.
  induction n; intros s i H; [lia|].
  destruct i; simpl.
  - lia.
  - rewrite IHn by lia. lia.
Qed.

Lemma expand_mrun_length : forall k s l, length (expand_mseg (MRun k s l)) = N.to_nat l.
Proof. intros. simpl. rewrite map_length. apply nrange_length. Qed.

Lemma expand_mrun_nth : forall k s l i, (i < N.to_nat l)%nat ->
  nth i (expand_mseg (MRun k s l)) [] = cmsg k (s + N.of_nat i).
Proof.
  intros k s l i H. simpl.
  rewrite nth_indep with (d' := cmsg k 0) by (rewrite map_length, nrange_length; exact H).
  rewrite map_nth with (d := 0). rewrite nrange_nth by exact H. reflexivity.
Qed.

Lemma expand_nruns_single : forall s l, expand_nruns [(s, l)] = nrange s (N.to_nat l).
Proof. intros. unfold expand_nruns. simpl. apply app_nil_r. Qed.

Lemma expand_msegs_app : forall a b, expand_msegs (a ++ b) = expand_msegs a ++ expand_msegs b.
Proof. intros. unfold expand_msegs. apply flat_map_app. Qed.

(* ---- the status table *)
Lemma cstatus_cases : forall s, s < 5 -> s = 0 \/ s = 1 \/ s = 2 \/ s = 3 \/ s = 4.
Proof. intros. lia. Qed.

Lemma cstatus_sep : forall a b k k', a < 5 -> b < 5 -> k < 16 -> k' < 16 ->
  cstatus a + k = cstatus b + k' -> a = b /\ k = k'.
Proof.
  intros a b k k' Ha Hb Hk Hk' E.
  destruct (cstatus_cases a Ha) as [->|[->|[->|[->| ->]]]];
  destruct (cstatus_cases b Hb) as [->|[->|[->|[->| ->]]]]; cbv [cstatus] in E; lia.
Qed.

Lemma shiftr14_lt5 : forall j, j < 81920 -> N.shiftr j 14 < 5.
Proof.
  intros j H. rewrite N.shiftr_div_pow2. change (2 ^ 14) with 16384.
  apply N.div_lt_upper_bound; lia.
Qed.

Lemma land127 : forall x, N.land x 127 = x mod 128.
Proof. intros. change 127 with (N.ones 7). rewrite N.land_ones. reflexivity. Qed.

(* a counter is determined by its three digits *)
Lemma cmsg_digits : forall j,
  j = N.shiftr j 14 * 16384 + N.land (N.shiftr j 7) 127 * 128 + N.land j 127.
Proof.
  intros j. rewrite !land127, !N.shiftr_div_pow2.
  change (2 ^ 14) with 16384. change (2 ^ 7) with 128.
  assert (E1 : j = 128 * (j / 128) + j mod 128) by (apply N.div_mod; lia).
  assert (E2 : j / 128 = 128 * (j / 128 / 128) + (j / 128) mod 128) by (apply N.div_mod; lia).
  assert (E3 : j / 16384 = j / 128 / 128) by (rewrite N.div_div by lia; reflexivity).
  lia.
Qed.

Lemma cmsg_inj : forall k k' j j', k < 16 -> k' < 16 -> j < 81920 -> j' < 81920 ->
  cmsg k j = cmsg k' j' -> k = k' /\ j = j'.
Proof.
  intros k k' j j' Hk Hk' Hj Hj' E.
  assert (E1 := f_equal (fun l => nth 0 l 0) E).
  assert (E2 := f_equal (fun l => nth 1 l 0) E).
  assert (E3 := f_equal (fun l => nth 2 l 0) E).
  change (cstatus (N.shiftr j 14) + k = cstatus (N.shiftr j' 14) + k') in E1.
  change (N.land (N.shiftr j 7) 127 = N.land (N.shiftr j' 7) 127) in E2.
  change (N.land j 127 = N.land j' 127) in E3.
  destruct (cstatus_sep _ _ _ _ (shiftr14_lt5 j Hj) (shiftr14_lt5 j' Hj') Hk Hk' E1) as [Ea Ek].
  split; [exact Ek|].
  rewrite (cmsg_digits j), (cmsg_digits j'), Ea, E2, E3. reflexivity.
Qed.

(* the monitor's emitter tag of a counter message is its emitter *)
Lemma cmsg_tag : forall k j, k < 16 -> j < 81920 -> msg_tag (cmsg k j) = N.to_nat k.
Proof.
  intros k j Hk Hj. unfold cmsg, msg_tag. f_equal.
  assert (Hs := shiftr14_lt5 j Hj).
  assert (Hm : (cstatus (N.shiftr j 14) + k) mod 16 = k).
  { destruct (cstatus_cases _ Hs) as [->|[->|[->|[->| ->]]]]; cbv [cstatus].
    - change 144 with (9 * 16). rewrite N.add_comm, N.mod_add by lia. apply N.mod_small; lia.
    - change 128 with (8 * 16). rewrite N.add_comm, N.mod_add by lia. apply N.mod_small; lia.
    - change 176 with (11 * 16). rewrite N.add_comm, N.mod_add by lia. apply N.mod_small; lia.
    - change 224 with (14 * 16). rewrite N.add_comm, N.mod_add by lia. apply N.mod_small; lia.
    - change 160 with (10 * 16). rewrite N.add_comm, N.mod_add by lia. apply N.mod_small; lia. }
  change 15 with (N.ones 4). rewrite N.land_ones. exact Hm.
Qed.

(* the monitors' equality on messages is Leibniz equality, so on counter messages it is equality of (emitter, counter) *)
Lemma list_eqb_N_eq : forall a b : list N, list_eqb N.eqb a b = true <-> a = b.
Proof.
  induction a; destruct b; simpl; split; intro H; try reflexivity; try discriminate.
  - apply andb_true_iff in H. destruct H as [H1 H2]. apply N.eqb_eq in H1. apply IHa in H2. subst. reflexivity.
  - injection H as -> ->. apply andb_true_iff. split; [apply N.eqb_refl | apply IHa; reflexivity].
Qed.

Lemma msg_eqb_cmsg : forall k k' j j', k < 16 -> k' < 16 -> j < 81920 -> j' < 81920 ->
  msg_eqb (cmsg k j) (cmsg k' j') = true <-> k = k' /\ j = j'.
Proof.
  intros. unfold msg_eqb. rewrite list_eqb_N_eq. split.
  - apply cmsg_inj; assumption.
  - intros [-> ->]. reflexivity.
Qed.

Lemma in_ok_eq : forall a g, in_ok a g = true <-> a = g.
Proof.
  unfold in_ok, in_accepts.
  induction a; destruct g; simpl; split; intro H; try reflexivity; try discriminate.
  - apply andb_true_iff in H. destruct H as [H1 H2]. apply list_eqb_N_eq in H1. apply IHa in H2. subst. reflexivity.
  - injection H as -> ->. apply andb_true_iff. split; [apply list_eqb_N_eq; reflexivity | apply IHa; reflexivity].
Qed.

(* a long fan-out history is judged in parts: the whole list of consumer records is accepted iff every part is *)
Lemma fanout_accepts_app : forall slack a b,
  fanout_accepts slack (a ++ b) = fanout_accepts slack a && fanout_accepts slack b.
Proof. intros. unfold fanout_accepts. apply forallb_app. Qed.

Lemma accepts_history_fanout_app : forall slack a b,
  accepts_history (mkHistory [] [] [] [] slack (a ++ b)) =
  accepts_history (mkHistory [] [] [] [] slack a) && accepts_history (mkHistory [] [] [] [] slack b).
Proof. intros. unfold accepts_history. simpl. apply fanout_accepts_app. Qed.
