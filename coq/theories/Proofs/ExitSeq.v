(* C14: the exit sequence. *)
From Coq Require Import List NArith ZArith Bool Lia.
From HIDI Require Import Base.AList Model.Device Proofs.DeviceBasics.
Import ListNotations.
Open Scope N_scope.

Definition pressed_keys (s : state) (code : N) (val : Z) : list N :=
  if (val =? 1)%Z then sadd N.eqb code (keyT s) else srem N.eqb code (keyT s).

Lemma handle_key_sigs c s sub code val :
  sigs (snd (handle_key c s sub code val)) =
  if (val =? 1)%Z && exit_complete c (pressed_keys s code val) then 1%nat else 0%nat.
Proof.
  unfold handle_key, pressed_keys.
  set (s1 := if (val =? 1)%Z then set_keyT (sadd N.eqb code (keyT s)) s else set_keyT (srem N.eqb code (keyT s)) s).
  assert (H1 : keyT s1 = if (val =? 1)%Z then sadd N.eqb code (keyT s) else srem N.eqb code (keyT s))
    by (subst s1; destruct (val =? 1)%Z; reflexivity).
  rewrite <- H1. clearbody s1. clear H1.
  destruct ((val =? 1)%Z && exit_complete c (keyT s1)); [reflexivity|].
  destruct (find_action c code) as [a|].
  - destruct (val =? 1)%Z.
    + destruct (check_double _); [reflexivity|]. destruct (invoke_press c a _). reflexivity.
    + destruct (val =? 0)%Z; reflexivity.
  - destruct (find_key c s sub code).
    + destruct (val =? 1)%Z; [destruct (note_on_key c s1 sub code); reflexivity|].
      destruct (val =? 0)%Z; [destruct (note_off_key c s1 code)|]; reflexivity.
    + destruct (val =? 0)%Z; [destruct (note_off_key c s1 code)|]; reflexivity.
Qed.

Lemma handle_sample_sigs c s sa : sigs (snd (handle_sample c s sa)) = 0%nat.
Proof.
  unfold handle_sample. destruct (learning s && negb (sa_gate sa)); [reflexivity|].
  destruct (match a_type (sa_an sa) with ACC => _ | APitchBend => _ | AKeySim => _ | AActionSim => _ | AUnknown => _ end).
  reflexivity.
Qed.

Lemma exit_complete_spec c kt :
  exit_complete c kt = true <-> exitseq c <> [] /\ forall k, In k (exitseq c) -> In k kt.
Proof.
  unfold exit_complete. destruct (exitseq c) as [|x l] eqn:E.
  - split; [discriminate|intros [H _]; congruence].
  - rewrite forallb_forall. split.
    + intro H. split; [discriminate|]. intros k Hk. apply (mem_in N.eqb Neqb_spec). apply H. exact Hk.
    + intros [_ H] k Hk. apply (mem_in N.eqb Neqb_spec). apply H. exact Hk.
Qed.

(* one step: the signal is raised exactly on a press after which every key of a non-empty sequence is down *)
Lemma step_sigs c s e :
  sigs (snd (step c s e)) =
  match e with
  | EKey _ k v => if (v =? 1)%Z && exit_complete c (next_keys (keyT s) e) then 1%nat else 0%nat
  | _ => 0%nat
  end.
Proof.
  destruct e as [sub code val|sa|]; cbn [step].
  - destruct (val =? 2)%Z eqn:E2.
    + apply Z.eqb_eq in E2. subst val. reflexivity.
    + rewrite handle_key_sigs. unfold pressed_keys. cbn [next_keys]. rewrite E2. reflexivity.
  - apply handle_sample_sigs.
  - reflexivity.
Qed.

(* the completing press is swallowed: no MIDI, and only the key tracker changes *)
Lemma step_swallowed c s sub code :
  exit_complete c (sadd N.eqb code (keyT s)) = true ->
  step c s (EKey sub code 1) = (set_keyT (sadd N.eqb code (keyT s)) s, {| midi := []; sigs := 1 |}).
Proof.
  intro H. cbn [step]. change (1 =? 2)%Z with false. cbv iota. unfold handle_key.
  change (1 =? 1)%Z with true. cbv iota. cbn [keyT set_keyT]. rewrite H. reflexivity.
Qed.

Lemma nth_run_state c h1 e h2 :
  nth (length h1) (snd (run c (h1 ++ e :: h2))) silent = snd (step c (fst (run c h1)) e).
Proof.
  unfold run. rewrite run_from_app. destruct (run_from c (init c) h1) as [s1 o1] eqn:E1.
  cbn [run_from fst]. destruct (step c s1 e) as [s2 o]. destruct (run_from c s2 h2) as [s3 o3].
  cbn [snd fst].
  assert (L : length o1 = length h1).
  { clear -E1. revert E1. generalize (init c). revert o1 s1. induction h1 as [|x r IH]; intros o1 s1 s0 E; cbn in E.
    - injection E as <- <-. reflexivity.
    - destruct (step c s0 x) as [sa oa]. destruct (run_from c sa r) as [sb ob] eqn:Eb.
      injection E as <- <-. cbn. f_equal. eapply IH. exact Eb. }
  rewrite <- L. rewrite app_nth2 by lia. rewrite Nat.sub_diag. reflexivity.
Qed.

Lemma keys_down_snoc h e : keys_down (h ++ [e]) = next_keys (keys_down h) e.
Proof. unfold keys_down. rewrite fold_left_app. reflexivity. Qed.

Definition out_at (c : config) (h : list ev) (i : nat) : out := nth i (snd (run c h)) silent.

Lemma never_before c h1 e h2 :
  sigs (out_at c (h1 ++ e :: h2) (length h1)) <> 0%nat ->
  (exists sub k, e = EKey sub k 1) /\ exitseq c <> [] /\
  forall k, In k (exitseq c) -> In k (keys_down (h1 ++ [e])).
Proof.
  unfold out_at. rewrite nth_run_state, step_sigs, run_keyT, keys_down_snoc.
  destruct e as [sub k v|sa|]; try (intro H; congruence).
  destruct (v =? 1)%Z eqn:Ev; [|intro H; cbn in H; congruence].
  apply Z.eqb_eq in Ev. subst v.
  destruct (exit_complete c _) eqn:Ex; [|intro H; cbn in H; congruence].
  intros _. apply exit_complete_spec in Ex. destruct Ex as [Hne Hall].
  split; [exists sub, k; reflexivity|]. split; assumption.
Qed.

Lemma fires c h1 sub k h2 :
  exitseq c <> [] -> (forall x, In x (exitseq c) -> In x (keys_down (h1 ++ [EKey sub k 1]))) ->
  out_at c (h1 ++ EKey sub k 1 :: h2) (length h1) = {| midi := []; sigs := 1 |} /\
  fst (step c (fst (run c h1)) (EKey sub k 1)) = set_keyT (keys_down (h1 ++ [EKey sub k 1])) (fst (run c h1)).
Proof.
  intros Hne Hall. unfold out_at. rewrite nth_run_state.
  assert (Ex : exit_complete c (sadd N.eqb k (keyT (fst (run c h1)))) = true).
  { apply exit_complete_spec. split; [exact Hne|]. intros x Hx. specialize (Hall x Hx).
    rewrite keys_down_snoc in Hall. cbn in Hall. rewrite run_keyT. exact Hall. }
  rewrite (step_swallowed _ _ _ _ Ex). cbn [fst snd]. split; [reflexivity|].
  rewrite keys_down_snoc. cbn. rewrite run_keyT. reflexivity.
Qed.

Lemma run_length c h : length (snd (run c h)) = length h.
Proof.
  unfold run. generalize (init c). induction h as [|e r IH]; intro s; cbn; [reflexivity|].
  destruct (step c s e) as [s1 o]. specialize (IH s1). destruct (run_from c s1 r). cbn in *. lia.
Qed.

Lemma split_at {A} (l : list A) i d : (i < length l)%nat -> exists l1 l2, l = l1 ++ nth i l d :: l2 /\ length l1 = i.
Proof.
  revert i. induction l as [|x r IH]; intros i H; cbn in H; [lia|].
  destruct i as [|i].
  - exists [], r. split; reflexivity.
  - destruct (IH i ltac:(lia)) as (l1&l2&E&L). exists (x :: l1), l2. cbn. split; [congruence|lia].
Qed.

Lemma empty_never c h i : exitseq c = [] -> sigs (out_at c h i) = 0%nat.
Proof.
  intro He. unfold out_at.
  destruct (Nat.lt_ge_cases i (length h)) as [Hi|Hi].
  - destruct (split_at h i ESyn Hi) as (h1&h2&E&L). remember (nth i h ESyn) as e eqn:Ee. clear Ee.
    subst h i. rewrite nth_run_state, step_sigs.
    destruct e as [sub k v|sa|]; try reflexivity.
    unfold exit_complete. rewrite He. destruct (v =? 1)%Z; reflexivity.
  - rewrite nth_overflow; [reflexivity|]. rewrite run_length. exact Hi.
Qed.
