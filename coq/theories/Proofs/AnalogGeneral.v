(* C06, general part (no grid): range, monotonicity and accuracy of the shaping function for EVERY axis range within int32,
   EVERY raw value of the range and EVERY finite deadzone 0 <= dz <= 1 - 2^-10, proved from the real-number semantics of
   IEEE-754 binary64 (Flocq): each operation is the correctly rounded (to nearest even) exact operation; rounding is monotone,
   symmetric, the identity on representable numbers, and moves a number |x| <= 2^e by at most 2^(e-53). *)
From Coq Require Import List NArith ZArith Bool Reals Lra Lia.
From Flocq Require Import Core.Core.
From Flocq Require Import Plus_error.
From Flocq Require IEEE754.BinarySingleNaN.
From HIDI Require Import Base.AList Model.Device Model.AnalogF Proofs.AnalogEndstop.
Local Open Scope R_scope.

(* ====================================================================== rounding: basic facts *)
Lemma Vfexp : Valid_exp fexp.
Proof. apply FLT_exp_valid; reflexivity. Qed.
Lemma Vrnd : Valid_rnd (B.round_mode B.mode_NE).
Proof. apply B.valid_rnd_round_mode. Qed.

Lemma rnd_le x y : x <= y -> rnd x <= rnd y.
Proof. apply round_le; [exact Vfexp|exact Vrnd]. Qed.

Lemma rnd_id x : generic_format radix2 fexp x -> rnd x = x.
Proof. apply round_generic. exact Vrnd. Qed.

Lemma rnd_0 : rnd 0 = 0.
Proof. apply round_0. exact Vrnd. Qed.

Lemma rnd_1 : rnd 1 = 1.
Proof. apply rnd_id. exact generic_one. Qed.

Lemma rnd_opp x : rnd (- x) = - rnd x.
Proof. apply (round_NE_opp radix2 fexp). Qed.

Lemma rnd_Z z : (Z.abs z < 2 ^ 53)%Z -> rnd (IZR z) = IZR z.
Proof. intro H. apply rnd_id. apply generic_int. exact H. Qed.

Lemma rnd_bpow e : (-1074 <= e)%Z -> rnd (bpow radix2 e) = bpow radix2 e.
Proof. intro H. apply rnd_id. apply generic_format_bpow. unfold FLT_exp. lia. Qed.

Lemma rnd_nonneg x : 0 <= x -> 0 <= rnd x.
Proof. intro H. rewrite <- rnd_0. apply rnd_le. exact H. Qed.

Lemma rnd_nonpos x : x <= 0 -> rnd x <= 0.
Proof. intro H. rewrite <- rnd_0. apply rnd_le. exact H. Qed.

Lemma rnd_le_1 x : x <= 1 -> rnd x <= 1.
Proof. intro H. rewrite <- rnd_1. apply rnd_le. exact H. Qed.

Lemma rnd_le_2 x : x <= 2 -> rnd x <= 2.
Proof. intro H. apply Rle_trans with (rnd 2); [apply rnd_le; exact H|]. rewrite (rnd_Z 2) by (cbn; lia). lra. Qed.

Lemma rnd_ge_m1 x : -1 <= x -> -1 <= rnd x.
Proof. intro H. rewrite <- (rnd_id (-1) generic_mone). apply rnd_le. exact H. Qed.

(* the unit roundoff *)
Definition u : R := bpow radix2 (-53).

Lemma u_pos : 0 < u.
Proof. apply bpow_gt_0. Qed.

Lemma u_val : u = / 9007199254740992.
Proof. unfold u. simpl. reflexivity. Qed.

(* |x| <= 2^e  ==>  |rnd x - x| <= 2^e * u  (a factor 2 above the sharp bound; enough here) *)
Lemma rnd_err x e : (-1021 <= e)%Z -> Rabs x <= bpow radix2 e -> Rabs (rnd x - x) <= bpow radix2 e * u.
Proof.
  intros He Hx. pose proof (@error_le_half_ulp radix2 fexp Vfexp (fun t => negb (Z.even t)) x) as E.
  eapply Rle_trans; [exact E|].
  assert (Hu : ulp radix2 fexp x <= ulp radix2 fexp (bpow radix2 e)).
  { apply ulp_le; [exact Vfexp|apply FLT_exp_monotone|]. rewrite (Rabs_pos_eq (bpow radix2 e)) by apply bpow_ge_0. exact Hx. }
  rewrite ulp_bpow in Hu.
  replace (fexp (e + 1)) with (e + -53 + 1)%Z in Hu by (unfold FLT_exp; lia).
  rewrite bpow_plus in Hu. rewrite (bpow_plus radix2 e (-53)) in Hu. fold u in Hu.
  change (bpow radix2 1) with 2 in Hu. lra.
Qed.

Lemma rnd_err_1 x : -1 <= x <= 1 -> - u <= rnd x - x <= u.
Proof.
  intro H. apply Rabs_le_inv. replace u with (bpow radix2 0 * u) by (simpl; lra).
  apply rnd_err; [lia|]. simpl. apply Rabs_le. lra.
Qed.

Lemma rnd_err_2 x : -2 <= x <= 2 -> - (2 * u) <= rnd x - x <= 2 * u.
Proof.
  intro H. apply Rabs_le_inv. replace (2 * u) with (bpow radix2 1 * u) by (simpl; lra).
  apply rnd_err; [lia|]. simpl. apply Rabs_le. lra.
Qed.

Lemma rnd_err_128 x : -128 <= x <= 128 -> - (128 * u) <= rnd x - x <= 128 * u.
Proof.
  intro H. apply Rabs_le_inv. replace (128 * u) with (bpow radix2 7 * u) by (simpl; lra).
  apply rnd_err; [lia|]. simpl. apply Rabs_le. lra.
Qed.

Lemma rnd_err_16384 x : -16384 <= x <= 16384 -> - (16384 * u) <= rnd x - x <= 16384 * u.
Proof.
  intro H. apply Rabs_le_inv. replace (16384 * u) with (bpow radix2 14 * u) by (simpl; lra).
  apply rnd_err; [lia|]. simpl. apply Rabs_le. lra.
Qed.

(* no overflow for anything this file computes *)
Lemma no_ovf r : -32768 <= r <= 32768 -> Rabs (rnd r) < bpow radix2 1024.
Proof.
  intro H. apply Rle_lt_trans with 32768.
  - apply abs_round_le_generic; [exact Vfexp|exact Vrnd|apply (generic_int 32768); cbn; lia|apply Rabs_le; lra].
  - pose proof (IZR_lt_max 32768 ltac:(cbn; lia)) as K. rewrite Rabs_pos_eq in K by lra. exact K.
Qed.

(* ====================================================================== the four operations, on finite operands *)
Lemma fadd_ok x y : B.is_finite x = true -> B.is_finite y = true -> -32768 <= B.B2R x + B.B2R y <= 32768 ->
  B.B2R (fadd x y) = rnd (B.B2R x + B.B2R y) /\ B.is_finite (fadd x y) = true.
Proof.
  intros Hx Hy Hb. pose proof (B.Bplus_correct 53 1024 _ _ B.mode_NE x y Hx Hy) as H.
  change (SpecFloat.fexp 53 1024) with fexp in H. rewrite Rlt_bool_true in H by (apply no_ovf; exact Hb).
  destruct H as (H1&H2&_). split; assumption.
Qed.

Lemma fsub_ok x y : B.is_finite x = true -> B.is_finite y = true -> -32768 <= B.B2R x - B.B2R y <= 32768 ->
  B.B2R (fsub x y) = rnd (B.B2R x - B.B2R y) /\ B.is_finite (fsub x y) = true.
Proof.
  intros Hx Hy Hb. pose proof (B.Bminus_correct 53 1024 _ _ B.mode_NE x y Hx Hy) as H.
  change (SpecFloat.fexp 53 1024) with fexp in H. rewrite Rlt_bool_true in H by (apply no_ovf; exact Hb).
  destruct H as (H1&H2&_). split; assumption.
Qed.

Lemma fmul_ok x y : B.is_finite x = true -> B.is_finite y = true -> -32768 <= B.B2R x * B.B2R y <= 32768 ->
  B.B2R (fmul x y) = rnd (B.B2R x * B.B2R y) /\ B.is_finite (fmul x y) = true.
Proof.
  intros Hx Hy Hb. pose proof (B.Bmult_correct 53 1024 _ _ B.mode_NE x y) as H.
  change (SpecFloat.fexp 53 1024) with fexp in H. rewrite Rlt_bool_true in H by (apply no_ovf; exact Hb).
  destruct H as (H1&H2&_). split; [exact H1|]. unfold fmul. rewrite H2, Hx, Hy. reflexivity.
Qed.

Lemma fdiv_ok x y : B.is_finite x = true -> B.B2R y <> 0 -> -32768 <= B.B2R x / B.B2R y <= 32768 ->
  B.B2R (fdiv x y) = rnd (B.B2R x / B.B2R y) /\ B.is_finite (fdiv x y) = true.
Proof.
  intros Hx Hy Hb. pose proof (B.Bdiv_correct 53 1024 _ _ B.mode_NE x y Hy) as H.
  change (SpecFloat.fexp 53 1024) with fexp in H. rewrite Rlt_bool_true in H by (apply no_ovf; exact Hb).
  destruct H as (H1&H2&_). split; [exact H1|]. unfold fdiv. rewrite H2. exact Hx.
Qed.

Lemma f2_correct : B.B2R f2 = 2 /\ B.is_finite f2 = true.
Proof. destruct (f_of_Z_correct 2 ltac:(cbn; lia)) as (H1&H2&_). split; assumption. Qed.

(* ====================================================================== the computation mirrored on real numbers + rnd *)
(* raw / |min| or raw / |max| *)
Definition QR (mn mx raw : Z) : R :=
  if (raw <? 0)%Z then IZR raw / Rabs (IZR mn) else IZR raw / Rabs (IZR mx).
(* the normalised (with deadzone_at_center: re-centred) value as the float code computes it *)
Definition NR (mn mx : Z) (dzc : bool) (raw : Z) : R :=
  let v := rnd (QR mn mx raw) in if dzc then rnd (rnd (v * 2) - 1) else v.
(* the deadzone / rescale part as the float code computes it *)
Definition TR (dz w : R) : R :=
  if Rlt_bool w 0 then (if Rlt_bool (- dz) w then 0 else rnd (rnd (w + dz) / rnd (1 - dz)))
  else (if Rlt_bool w dz then 0 else rnd (rnd (w - dz) / rnd (1 - dz))).

(* the exact transfer function (no rounding anywhere): Model/AnalogSpec.v's [exact_position] without the flip, over R *)
Definition norm_R (mn mx : Z) (dzc : bool) (raw : Z) : R :=
  let v := QR mn mx raw in if dzc then v * 2 - 1 else v.
Definition tail_R (dz v : R) : R :=
  if Rlt_bool v 0 then (if Rlt_bool (- dz) v then 0 else (v + dz) / (1 - dz))
  else (if Rlt_bool v dz then 0 else (v - dz) / (1 - dz)).
Definition shape_R (mn mx : Z) (dzc : bool) (dz : R) (raw : Z) : R := tail_R dz (norm_R mn mx dzc raw).

(* the domain of the general theorems *)
Definition axis_dom (mn mx : Z) (dzc : bool) : Prop :=
  (- 2 ^ 31 <= mn <= 0)%Z /\ (0 < mx < 2 ^ 31)%Z /\ (dzc = true -> mn = 0%Z).
Definition dz_dom (dz : f64) : Prop := B.is_finite dz = true /\ 0 <= B.B2R dz <= 1 - / 1024.

(* ---------------------------------------------------------------------- raw / |range| *)
Lemma div_bounds n d : 0 < d -> 0 <= n <= d -> 0 <= n / d <= 1.
Proof.
  intros Hd [H0 H1]. unfold Rdiv. assert (0 < / d) by (apply Rinv_0_lt_compat; lra).
  split; [nra|]. replace 1 with (d * / d) by (field; lra). nra.
Qed.

Lemma div_mono a b d : 0 < d -> a <= b -> a / d <= b / d.
Proof. intros Hd H. unfold Rdiv. assert (0 < / d) by (apply Rinv_0_lt_compat; lra). nra. Qed.

Lemma QR_neg mn mx dzc raw : axis_dom mn mx dzc -> (mn <= raw < 0)%Z -> -1 <= QR mn mx raw <= 0.
Proof.
  intros (Hmn&Hmx&_) Hr. unfold QR. replace (raw <? 0)%Z with true by (symmetry; apply Z.ltb_lt; lia).
  assert (IZR mn <= IZR raw) by (apply IZR_le; lia). assert (IZR raw < 0) by (apply (IZR_lt raw 0); lia).
  rewrite Rabs_left by lra.
  destruct (div_bounds (- IZR raw) (- IZR mn)) as [A1 A2]; [lra|lra|].
  replace (IZR raw / - IZR mn) with (- (- IZR raw / - IZR mn)) by (field; lra). lra.
Qed.

Lemma QR_pos mn mx dzc raw : axis_dom mn mx dzc -> (0 <= raw <= mx)%Z -> 0 <= QR mn mx raw <= 1.
Proof.
  intros (Hmn&Hmx&_) Hr. unfold QR. replace (raw <? 0)%Z with false by (symmetry; apply Z.ltb_ge; lia).
  assert (IZR raw <= IZR mx) by (apply IZR_le; lia). assert (0 <= IZR raw) by (apply (IZR_le 0 raw); lia).
  assert (0 < IZR mx) by (apply (IZR_lt 0 mx); lia).
  rewrite Rabs_pos_eq by lra. apply div_bounds; lra.
Qed.

Lemma QR_range mn mx dzc raw : axis_dom mn mx dzc -> (mn <= raw <= mx)%Z -> -1 <= QR mn mx raw <= 1.
Proof.
  intros Hd Hr. destruct (Z_lt_le_dec raw 0).
  - pose proof (QR_neg mn mx dzc raw Hd ltac:(lia)). lra.
  - pose proof (QR_pos mn mx dzc raw Hd ltac:(lia)). lra.
Qed.

Lemma QR_mono mn mx dzc r1 r2 : axis_dom mn mx dzc -> (mn <= r1)%Z -> (r1 <= r2)%Z -> (r2 <= mx)%Z ->
  QR mn mx r1 <= QR mn mx r2.
Proof.
  intros Hd H1 H12 H2. destruct (Z_lt_le_dec r1 0) as [N1|P1]; destruct (Z_lt_le_dec r2 0) as [N2|P2].
  - destruct Hd as (Hmn&Hmx&_). unfold QR.
    replace (r1 <? 0)%Z with true by (symmetry; apply Z.ltb_lt; lia).
    replace (r2 <? 0)%Z with true by (symmetry; apply Z.ltb_lt; lia).
    apply div_mono; [|apply IZR_le; lia]. apply Rabs_pos_lt. apply not_0_IZR. lia.
  - pose proof (QR_neg mn mx dzc r1 Hd ltac:(lia)). pose proof (QR_pos mn mx dzc r2 Hd ltac:(lia)). lra.
  - lia.
  - destruct Hd as (Hmn&Hmx&_). unfold QR.
    replace (r1 <? 0)%Z with false by (symmetry; apply Z.ltb_ge; lia).
    replace (r2 <? 0)%Z with false by (symmetry; apply Z.ltb_ge; lia).
    apply div_mono; [|apply IZR_le; lia]. apply Rabs_pos_lt. apply not_0_IZR. lia.
Qed.

(* ---------------------------------------------------------------------- the normalised value *)
Lemma NR_range mn mx dzc raw : axis_dom mn mx dzc -> (mn <= raw <= mx)%Z -> -1 <= NR mn mx dzc raw <= 1.
Proof.
  intros Hd Hr. unfold NR. cbv zeta. destruct dzc.
  - assert (mn = 0%Z) by (apply Hd; reflexivity). subst mn.
    pose proof (QR_pos 0 mx true raw Hd ltac:(lia)) as [Q0 Q1].
    pose proof (rnd_nonneg _ Q0). pose proof (rnd_le_1 _ Q1).
    assert (0 <= rnd (rnd (QR 0 mx raw) * 2)) by (apply rnd_nonneg; lra).
    assert (rnd (rnd (QR 0 mx raw) * 2) <= 2).
    { apply rnd_le_2. lra. }
    split; [apply rnd_ge_m1; lra|apply rnd_le_1; lra].
  - pose proof (QR_range mn mx false raw Hd Hr) as [Q0 Q1]. split; [apply rnd_ge_m1; lra|apply rnd_le_1; lra].
Qed.

Lemma NR_sign mn mx raw : axis_dom mn mx false -> (mn <= raw <= mx)%Z ->
  ((raw < 0)%Z -> NR mn mx false raw <= 0) /\ ((0 <= raw)%Z -> 0 <= NR mn mx false raw).
Proof.
  intros Hd Hr. unfold NR. cbv zeta. split; intro H.
  - apply rnd_nonpos. apply (QR_neg mn mx false raw Hd). lia.
  - apply rnd_nonneg. apply (QR_pos mn mx false raw Hd). lia.
Qed.

Lemma NR_mono mn mx dzc r1 r2 : axis_dom mn mx dzc -> (mn <= r1)%Z -> (r1 <= r2)%Z -> (r2 <= mx)%Z ->
  NR mn mx dzc r1 <= NR mn mx dzc r2.
Proof.
  intros Hd H1 H12 H2. pose proof (QR_mono mn mx dzc r1 r2 Hd H1 H12 H2) as Q. apply rnd_le in Q.
  unfold NR. cbv zeta. destruct dzc; [|exact Q].
  apply rnd_le. apply Rplus_le_compat_r. apply rnd_le. lra.
Qed.

(* |computed - exact| <= 5u *)
Lemma NR_acc mn mx dzc raw : axis_dom mn mx dzc -> (mn <= raw <= mx)%Z ->
  - (5 * u) <= NR mn mx dzc raw - norm_R mn mx dzc raw <= 5 * u.
Proof.
  intros Hd Hr. unfold NR, norm_R. cbv zeta. pose proof u_pos.
  pose proof (QR_range mn mx dzc raw Hd Hr) as Q. pose proof (rnd_err_1 _ Q) as E1.
  destruct dzc; [|lra].
  assert (mn = 0%Z) by (apply Hd; reflexivity). subst mn.
  pose proof (QR_pos 0 mx true raw Hd ltac:(lia)) as [Q0 Q1].
  pose proof (rnd_nonneg _ Q0). pose proof (rnd_le_1 _ Q1).
  set (v := rnd (QR 0 mx raw)) in *.
  pose proof (rnd_err_2 (v * 2) ltac:(lra)) as E2.
  assert (0 <= rnd (v * 2)) by (apply rnd_nonneg; lra).
  assert (rnd (v * 2) <= 2).
  { apply rnd_le_2. lra. }
  pose proof (rnd_err_1 (rnd (v * 2) - 1) ltac:(lra)) as E3. lra.
Qed.

(* ---------------------------------------------------------------------- the deadzone / rescale part *)
Lemma d_facts dz : 0 <= dz <= 1 - / 1024 ->
  / 1024 <= rnd (1 - dz) <= 1 /\ - u <= rnd (1 - dz) - (1 - dz) <= u.
Proof.
  intro H. split; [split|].
  - apply Rle_trans with (rnd (bpow radix2 (-10))).
    + rewrite rnd_bpow by lia. simpl. lra.
    + apply rnd_le. simpl. lra.
  - apply rnd_le_1. lra.
  - apply rnd_err_1. lra.
Qed.

(* a numerator no larger than 1 - dz gives a quotient in [-1, 1]: rounding is monotone and symmetric *)
Lemma quot_bounds dz x : 0 <= dz <= 1 - / 1024 -> - (1 - dz) <= x <= 1 - dz -> -1 <= rnd x / rnd (1 - dz) <= 1.
Proof.
  intros Hdz Hx. destruct (d_facts dz Hdz) as [[D0 D1] _].
  assert (rnd x <= rnd (1 - dz)) by (apply rnd_le; lra).
  assert (- rnd (1 - dz) <= rnd x) by (rewrite <- rnd_opp; apply rnd_le; lra).
  set (d' := rnd (1 - dz)) in *.
  assert (0 < / d') by (apply Rinv_0_lt_compat; lra).
  unfold Rdiv. assert (d' * / d' = 1) by (field; lra). split; nra.
Qed.

Definition PR (dz w : R) : R := rnd (rnd (w - dz) / rnd (1 - dz)).

Lemma PR_facts dz w : 0 <= dz <= 1 - / 1024 -> dz <= w <= 1 ->
  0 <= PR dz w <= 1 /\ - (4096 * u) <= PR dz w - (w - dz) / (1 - dz) <= 4096 * u.
Proof.
  intros Hdz Hw. pose proof u_pos as U. destruct (d_facts dz Hdz) as [[D0 D1] Db].
  pose proof (rnd_err_1 (w - dz) ltac:(lra)) as Na.
  assert (N0 : 0 <= rnd (w - dz)) by (apply rnd_nonneg; lra).
  assert (N1 : rnd (w - dz) <= rnd (1 - dz)) by (apply rnd_le; lra).
  unfold PR. set (d' := rnd (1 - dz)) in *. set (n' := rnd (w - dz)) in *.
  destruct (div_bounds n' d') as [Q0 Q1]; [lra|lra|].
  pose proof (rnd_err_1 (n' / d') ltac:(lra)) as Qe.
  split; [split; [apply rnd_nonneg; lra|apply rnd_le_1; lra]|].
  destruct (div_bounds (w - dz) (1 - dz)) as [S0 S1]; [lra|lra|].
  assert (I : 0 < / d' <= 1024).
  { split; [apply Rinv_0_lt_compat; lra|]. replace 1024 with (/ / 1024) by field. apply Rinv_le_contravar; lra. }
  assert (E : n' / d' - (w - dz) / (1 - dz)
              = ((n' - (w - dz)) - (w - dz) / (1 - dz) * (d' - (1 - dz))) * / d').
  { field. split; lra. }
  set (s := (w - dz) / (1 - dz)) in *.
  set (a := n' - (w - dz)) in *. set (b := d' - (1 - dz)) in *.
  assert (- (2 * u) <= a - s * b <= 2 * u) by nra.
  assert (- (2048 * u) <= (a - s * b) * / d' <= 2048 * u) by nra.
  lra.
Qed.

Lemma TR_nonneg_eq dz w : 0 <= w -> TR dz w = if Rlt_bool w dz then 0 else PR dz w.
Proof. intro H. unfold TR. rewrite Rlt_bool_false by lra. reflexivity. Qed.

Lemma TR_odd dz w : 0 <= dz -> w < 0 -> TR dz w = - TR dz (- w).
Proof.
  intros Hdz Hw. unfold TR. rewrite Rlt_bool_true by lra. rewrite (Rlt_bool_false (- w) 0) by lra.
  destruct (Rlt_bool_spec (- dz) w) as [A|A].
  - rewrite Rlt_bool_true by lra. lra.
  - rewrite Rlt_bool_false by lra.
    replace (w + dz) with (- (- w - dz)) by lra. rewrite rnd_opp.
    replace (- rnd (- w - dz) / rnd (1 - dz)) with (- (rnd (- w - dz) / rnd (1 - dz))) by (unfold Rdiv; ring).
    apply rnd_opp.
Qed.

Lemma tail_R_odd dz w : 0 <= dz -> w < 0 -> tail_R dz w = - tail_R dz (- w).
Proof.
  intros Hdz Hw. unfold tail_R. rewrite Rlt_bool_true by lra. rewrite (Rlt_bool_false (- w) 0) by lra.
  destruct (Rlt_bool_spec (- dz) w) as [A|A].
  - rewrite Rlt_bool_true by lra. lra.
  - rewrite Rlt_bool_false by lra. unfold Rdiv. ring.
Qed.

Lemma TR_pos dz w : 0 <= dz <= 1 - / 1024 -> 0 <= w <= 1 ->
  0 <= TR dz w <= 1 /\ - (4096 * u) <= TR dz w - tail_R dz w <= 4096 * u.
Proof.
  intros Hdz Hw. pose proof u_pos. rewrite TR_nonneg_eq by lra. unfold tail_R. rewrite (Rlt_bool_false w 0) by lra.
  destruct (Rlt_bool_spec w dz) as [A|A]; [lra|]. apply PR_facts; lra.
Qed.

Lemma TR_pos_mono dz w1 w2 : 0 <= dz <= 1 - / 1024 -> 0 <= w1 -> w1 <= w2 -> w2 <= 1 -> TR dz w1 <= TR dz w2.
Proof.
  intros Hdz H1 H12 H2. destruct (Rlt_le_dec w1 dz) as [A|A].
  - rewrite (TR_nonneg_eq dz w1) by lra. rewrite Rlt_bool_true by lra. apply (TR_pos dz w2); lra.
  - rewrite !TR_nonneg_eq by lra. rewrite !Rlt_bool_false by lra. unfold PR.
    destruct (d_facts dz Hdz) as [[D0 D1] _]. apply rnd_le. apply div_mono; [lra|]. apply rnd_le. lra.
Qed.

Lemma TR_range dz w : 0 <= dz <= 1 - / 1024 -> -1 <= w <= 1 ->
  -1 <= TR dz w <= 1 /\ (0 <= w -> 0 <= TR dz w) /\ (w < 0 -> TR dz w <= 0).
Proof.
  intros Hdz Hw. destruct (Rlt_le_dec w 0) as [A|A].
  - rewrite TR_odd by lra. destruct (TR_pos dz (- w) Hdz ltac:(lra)) as [T _]. repeat split; lra.
  - destruct (TR_pos dz w Hdz ltac:(lra)) as [T _]. repeat split; lra.
Qed.

Lemma TR_mono dz w1 w2 : 0 <= dz <= 1 - / 1024 -> -1 <= w1 -> w1 <= w2 -> w2 <= 1 -> TR dz w1 <= TR dz w2.
Proof.
  intros Hdz H1 H12 H2. destruct (Rlt_le_dec w1 0) as [A|A]; destruct (Rlt_le_dec w2 0) as [C|C].
  - rewrite (TR_odd dz w1), (TR_odd dz w2) by lra.
    pose proof (TR_pos_mono dz (- w2) (- w1) Hdz ltac:(lra) ltac:(lra) ltac:(lra)). lra.
  - destruct (TR_range dz w1 Hdz ltac:(lra)) as (_&_&T1). destruct (TR_range dz w2 Hdz ltac:(lra)) as (_&T2&_).
    specialize (T1 A). specialize (T2 C). lra.
  - lra.
  - apply TR_pos_mono; lra.
Qed.

Lemma TR_acc dz w : 0 <= dz <= 1 - / 1024 -> -1 <= w <= 1 -> - (4096 * u) <= TR dz w - tail_R dz w <= 4096 * u.
Proof.
  intros Hdz Hw. destruct (Rlt_le_dec w 0) as [A|A].
  - rewrite TR_odd, tail_R_odd by lra. destruct (TR_pos dz (- w) Hdz ltac:(lra)) as [_ T]. lra.
  - apply TR_pos; lra.
Qed.

(* the exact tail is 1/(1-dz)-Lipschitz (<= 1024) and monotone *)
Definition gR (dz v : R) : R :=
  if Rlt_bool v 0 then (if Rlt_bool (- dz) v then 0 else v + dz) else (if Rlt_bool v dz then 0 else v - dz).

Lemma tail_R_g dz v : tail_R dz v = gR dz v / (1 - dz).
Proof. unfold tail_R, gR. destruct (Rlt_bool v 0), (Rlt_bool (- dz) v), (Rlt_bool v dz); unfold Rdiv; ring. Qed.

Lemma gR_lip dz a b : 0 <= dz -> a <= b -> 0 <= gR dz b - gR dz a <= b - a.
Proof.
  intros Hdz Hab. unfold gR.
  destruct (Rlt_bool_spec a 0), (Rlt_bool_spec (- dz) a), (Rlt_bool_spec a dz),
           (Rlt_bool_spec b 0), (Rlt_bool_spec (- dz) b), (Rlt_bool_spec b dz); lra.
Qed.

Lemma tail_R_lip dz a b e : 0 <= dz <= 1 - / 1024 -> - e <= a - b <= e ->
  - (1024 * e) <= tail_R dz a - tail_R dz b <= 1024 * e.
Proof.
  intros Hdz He. rewrite !tail_R_g.
  assert (I : 0 < / (1 - dz) <= 1024).
  { split; [apply Rinv_0_lt_compat; lra|]. replace 1024 with (/ / 1024) by field. apply Rinv_le_contravar; lra. }
  unfold Rdiv. set (i := / (1 - dz)) in *.
  destruct (Rle_lt_dec a b) as [L|L].
  - pose proof (gR_lip dz a b ltac:(lra) L). nra.
  - pose proof (gR_lip dz b a ltac:(lra) ltac:(lra)). nra.
Qed.

Lemma tail_R_mono dz a b : 0 <= dz < 1 -> a <= b -> tail_R dz a <= tail_R dz b.
Proof.
  intros Hdz Hab. rewrite !tail_R_g. pose proof (gR_lip dz a b ltac:(lra) Hab).
  apply div_mono; lra.
Qed.

(* ---------------------------------------------------------------------- range, monotonicity, accuracy on the real mirror *)
Lemma mirror_range mn mx dzc dz raw : axis_dom mn mx dzc -> 0 <= dz <= 1 - / 1024 -> (mn <= raw <= mx)%Z ->
  -1 <= TR dz (NR mn mx dzc raw) <= 1.
Proof. intros Hd Hdz Hr. apply TR_range; [exact Hdz|]. apply NR_range; assumption. Qed.

Lemma mirror_mono mn mx dzc dz r1 r2 : axis_dom mn mx dzc -> 0 <= dz <= 1 - / 1024 ->
  (mn <= r1)%Z -> (r1 <= r2)%Z -> (r2 <= mx)%Z ->
  TR dz (NR mn mx dzc r1) <= TR dz (NR mn mx dzc r2).
Proof.
  intros Hd Hdz H1 H12 H2. apply TR_mono; [exact Hdz| | |].
  - apply NR_range; [exact Hd|lia].
  - apply NR_mono; assumption.
  - apply NR_range; [exact Hd|lia].
Qed.

(* 4096u for the tail on the computed normalised value + 1024 * 5u for the normalisation: < 2^14 u = 2^-39 *)
Lemma mirror_acc mn mx dzc dz raw : axis_dom mn mx dzc -> 0 <= dz <= 1 - / 1024 -> (mn <= raw <= mx)%Z ->
  - (16384 * u) <= TR dz (NR mn mx dzc raw) - shape_R mn mx dzc dz raw <= 16384 * u.
Proof.
  intros Hd Hdz Hr. unfold shape_R. pose proof u_pos.
  pose proof (TR_acc dz _ Hdz (NR_range mn mx dzc raw Hd Hr)) as A.
  pose proof (tail_R_lip dz _ _ (5 * u) Hdz (NR_acc mn mx dzc raw Hd Hr)) as L. lra.
Qed.

(* ====================================================================== the float code computes the mirror *)
Definition tail (dz v : f64) : f64 :=
  if flt v f0 then if fgt v (fneg dz) then f0 else rescale false (fadd v dz) dz
  else if flt v dz then f0 else rescale false (fsub v dz) dz.

Lemma shape_tail mn mx dzc dz raw : fst (shape mn mx dzc dz raw) = tail dz (normalised mn mx dzc raw).
Proof.
  unfold shape, shape_gen, normalised, tail. cbv zeta.
  destruct (raw <? 0)%Z; destruct dzc; cbv beta iota zeta; cbn [fst];
    repeat match goal with |- context [if ?c then _ else _] => destruct c end; reflexivity.
Qed.

Lemma fabs_Z z : (Z.abs z < 2 ^ 53)%Z -> B.B2R (fabs (f_of_Z z)) = Rabs (IZR z) /\ B.is_finite (fabs (f_of_Z z)) = true.
Proof.
  intro H. destruct (f_of_Z_correct z H) as (X1&X2&_). unfold fabs.
  rewrite B.B2R_Babs, B.is_finite_Babs, X1. split; [reflexivity|exact X2].
Qed.

Lemma quotient_ok mn mx dzc raw : axis_dom mn mx dzc -> (mn <= raw <= mx)%Z ->
  let q := if (raw <? 0)%Z then fdiv (f_of_Z raw) (fabs (f_of_Z mn)) else fdiv (f_of_Z raw) (fabs (f_of_Z mx)) in
  B.B2R q = rnd (QR mn mx raw) /\ B.is_finite q = true.
Proof.
  intros Hd Hr. pose proof (QR_range mn mx dzc raw Hd Hr) as Q. destruct Hd as (Hmn&Hmx&_).
  destruct (f_of_Z_correct raw ltac:(lia)) as (R1&R2&_).
  destruct (fabs_Z mn ltac:(lia)) as (N1&N2). destruct (fabs_Z mx ltac:(lia)) as (M1&M2).
  unfold QR in *. cbv zeta. destruct (Z.ltb_spec raw 0) as [L|L].
  - rewrite <- R1, <- N1 in *. apply fdiv_ok; [exact R2| |lra].
    rewrite N1. apply Rabs_no_R0. apply not_0_IZR. lia.
  - rewrite <- R1, <- M1 in *. apply fdiv_ok; [exact R2| |lra].
    rewrite M1. apply Rabs_no_R0. apply not_0_IZR. lia.
Qed.

Lemma normalised_ok mn mx dzc raw : axis_dom mn mx dzc -> (mn <= raw <= mx)%Z ->
  B.B2R (normalised mn mx dzc raw) = NR mn mx dzc raw /\ B.is_finite (normalised mn mx dzc raw) = true.
Proof.
  intros Hd Hr. destruct (quotient_ok mn mx dzc raw Hd Hr) as [Q1 Q2]. cbv zeta in Q1, Q2.
  unfold normalised, NR. cbv zeta.
  set (q := if (raw <? 0)%Z then fdiv (f_of_Z raw) (fabs (f_of_Z mn)) else fdiv (f_of_Z raw) (fabs (f_of_Z mx))) in *.
  destruct dzc; [|split; assumption].
  assert (mn = 0%Z) by (apply Hd; reflexivity). subst mn.
  pose proof (QR_pos 0 mx true raw Hd ltac:(lia)) as [P0 P1].
  pose proof (rnd_nonneg _ P0). pose proof (rnd_le_1 _ P1).
  destruct f2_correct as (T1&T2). destruct f1_correct as (O1&O2&_).
  destruct (fmul_ok q f2 Q2 T2) as [A1 A2]; [rewrite Q1, T1; lra|]. rewrite Q1, T1 in A1.
  assert (0 <= rnd (rnd (QR 0 mx raw) * 2)) by (apply rnd_nonneg; lra).
  assert (rnd (rnd (QR 0 mx raw) * 2) <= 2) by (apply rnd_le_2; lra).
  destruct (fsub_ok (fmul q f2) f1 A2 O2) as [S1 S2]; [rewrite A1, O1; lra|]. rewrite A1, O1 in S1.
  split; assumption.
Qed.

Lemma tail_ok dz v : dz_dom dz -> B.is_finite v = true -> -1 <= B.B2R v <= 1 ->
  B.B2R (tail dz v) = TR (B.B2R dz) (B.B2R v) /\ B.is_finite (tail dz v) = true.
Proof.
  intros [Hf Hdz] Hv Hr. destruct f0_correct as (Z1&Z2). destruct f1_correct as (O1&O2&_).
  destruct (d_facts _ Hdz) as [[D0 D1] _].
  destruct (fsub_ok f1 dz O2 Hf) as [E1 E2]; [rewrite O1; lra|]. rewrite O1 in E1.
  assert (Dn : B.B2R (fsub f1 dz) <> 0) by (rewrite E1; lra).
  unfold tail, TR, rescale.
  rewrite (flt_correct v f0 Hv Z2), Z1.
  destruct (Rlt_bool_spec (B.B2R v) 0) as [A|A].
  - unfold fgt, fneg. rewrite (flt_correct (B.Bopp dz) v) by (rewrite ?B.is_finite_Bopp; assumption).
    rewrite B.B2R_Bopp. destruct (Rlt_bool_spec (- B.B2R dz) (B.B2R v)) as [C|C]; [split; assumption|].
    destruct (fadd_ok v dz Hv Hf) as [P1 P2]; [lra|].
    pose proof (quot_bounds (B.B2R dz) (B.B2R v + B.B2R dz) Hdz ltac:(lra)) as Q.
    destruct (fdiv_ok (fadd v dz) (fsub f1 dz) P2 Dn) as [G1 G2]; [rewrite P1, E1; lra|].
    rewrite P1, E1 in G1. split; assumption.
  - rewrite (flt_correct v dz Hv Hf). destruct (Rlt_bool_spec (B.B2R v) (B.B2R dz)) as [C|C]; [split; assumption|].
    destruct (fsub_ok v dz Hv Hf) as [P1 P2]; [lra|].
    pose proof (quot_bounds (B.B2R dz) (B.B2R v - B.B2R dz) Hdz ltac:(lra)) as Q.
    destruct (fdiv_ok (fsub v dz) (fsub f1 dz) P2 Dn) as [G1 G2]; [rewrite P1, E1; lra|].
    rewrite P1, E1 in G1. split; assumption.
Qed.

(* the shaped value is finite and is the mirror's value *)
Lemma shape_ok mn mx dzc dz raw : axis_dom mn mx dzc -> dz_dom dz -> (mn <= raw <= mx)%Z ->
  B.B2R (fst (shape mn mx dzc dz raw)) = TR (B.B2R dz) (NR mn mx dzc raw) /\
  B.is_finite (fst (shape mn mx dzc dz raw)) = true.
Proof.
  intros Hd Hdz Hr. rewrite shape_tail. destruct (normalised_ok mn mx dzc raw Hd Hr) as [N1 N2].
  rewrite <- N1. apply tail_ok; [exact Hdz|exact N2|]. rewrite N1. apply NR_range; assumption.
Qed.

(* ====================================================================== 1. range *)
Theorem shape_finite_range mn mx dzc dz raw : axis_dom mn mx dzc -> dz_dom dz -> (mn <= raw <= mx)%Z ->
  B.is_finite (fst (shape mn mx dzc dz raw)) = true /\ -1 <= B.B2R (fst (shape mn mx dzc dz raw)) <= 1.
Proof.
  intros Hd Hdz Hr. destruct (shape_ok mn mx dzc dz raw Hd Hdz Hr) as [S1 S2]. split; [exact S2|].
  rewrite S1. apply mirror_range; [exact Hd|apply Hdz|exact Hr].
Qed.

(* an unsigned axis without deadzone_at_center never goes negative *)
Theorem shape_unsigned_nonneg mx dz raw : axis_dom 0 mx false -> dz_dom dz -> (0 <= raw <= mx)%Z ->
  0 <= B.B2R (fst (shape 0 mx false dz raw)) <= 1.
Proof.
  intros Hd Hdz Hr. destruct (shape_ok 0 mx false dz raw Hd Hdz Hr) as [S1 _]. rewrite S1.
  pose proof (NR_range 0 mx false raw Hd Hr) as N. destruct (NR_sign 0 mx raw Hd Hr) as [_ P].
  destruct (TR_range (B.B2R dz) _ (proj2 Hdz) N) as (T1&T2&_). specialize (T2 (P ltac:(lia))). lra.
Qed.

(* ====================================================================== 2. monotonicity *)
Theorem shape_monotone mn mx dzc dz r1 r2 : axis_dom mn mx dzc -> dz_dom dz ->
  (mn <= r1)%Z -> (r1 <= r2)%Z -> (r2 <= mx)%Z ->
  B.B2R (fst (shape mn mx dzc dz r1)) <= B.B2R (fst (shape mn mx dzc dz r2)).
Proof.
  intros Hd Hdz H1 H12 H2.
  destruct (shape_ok mn mx dzc dz r1 Hd Hdz ltac:(lia)) as [S1 _].
  destruct (shape_ok mn mx dzc dz r2 Hd Hdz ltac:(lia)) as [S2 _].
  rewrite S1, S2. apply mirror_mono; [exact Hd|apply Hdz|assumption..].
Qed.

(* ====================================================================== 3. accuracy: within 2^-39 of the exact function *)
Theorem shape_accuracy mn mx dzc dz raw : axis_dom mn mx dzc -> dz_dom dz -> (mn <= raw <= mx)%Z ->
  Rabs (B.B2R (fst (shape mn mx dzc dz raw)) - shape_R mn mx dzc (B.B2R dz) raw) <= bpow radix2 (-39).
Proof.
  intros Hd Hdz Hr. destruct (shape_ok mn mx dzc dz raw Hd Hdz Hr) as [S1 _]. rewrite S1.
  replace (bpow radix2 (-39)) with (16384 * u) by (rewrite u_val; simpl; lra).
  apply Rabs_le. apply mirror_acc; [exact Hd|apply Hdz|exact Hr].
Qed.
