(* The full machine (float layer + state machine, Model/AnalogF.v [frun]) runs the state machine of Model/Device.v on the
   discrete history [discrete_from] that the float layer makes of the raw events: a key event stays a key event, SYN stays
   SYN, an axis event becomes the sample [digest] computes - or nothing, when the axis is unmapped or the shaped value is the
   same as the last one.  Hence the state-machine theorems (C01, C07, C08) hold for the full machine, for ARBITRARY float
   configurations (NaN / infinite deadzones included): nothing here looks inside the float computation. *)
From Coq Require Import List NArith ZArith Bool Lia.
From HIDI Require Import Base.AList Model.Device Model.AnalogF Proofs.DeviceBasics Proofs.DeviceInv Proofs.DeviceCC
  Proofs.DeviceKeysim.
Import ListNotations.
Open Scope N_scope.

Definition all_sigs (os : list out) : nat := fold_right (fun o n => (sigs o + n)%nat) 0%nat os.

(* ====================================================================== the bridge *)
Lemma frun_from_discrete c fc ai h : forall s fs st outs,
  frun_from c fc ai (s, fs) h = Some (st, outs) ->
  let d := discrete_from c fc ai (s, fs) h in
  fst (run_from c s d) = fst st /\ all_midi (snd (run_from c s d)) = all_midi outs /\
  all_sigs (snd (run_from c s d)) = all_sigs outs.
Proof.
  induction h as [|e r IH]; intros s fs st outs H; cbn [frun_from discrete_from] in *.
  - injection H as <- <-. cbn. auto.
  - destruct e as [sub code val|sub code raw|]; cbn [fstep] in H.
    + destruct (step c s (EKey sub code val)) as [s1 o] eqn:Es. cbn [fst].
      destruct (frun_from c fc ai (s1, fs) r) as [[st2 os]|] eqn:Er; [|discriminate]. injection H as <- <-.
      destruct (IH s1 fs st2 os Er) as (I1&I2&I3). cbv zeta in *. cbn [run_from]. rewrite Es.
      destruct (run_from c s1 (discrete_from c fc ai (s1, fs) r)) as [s2 os2]. cbn [fst snd] in *.
      unfold all_midi in *. cbn [flat_map all_sigs fold_right]. rewrite I2. fold (all_sigs os2) (all_sigs os). rewrite I3. auto.
    + destruct (digest (nth (mapidx s) fc empty_fmapping) ai (find_analog c s sub code) fs sub code raw) as [[|sa|] fs'];
        [| |discriminate].
      * destruct (frun_from c fc ai (s, fs') r) as [[st2 os]|] eqn:Er; [|discriminate]. injection H as <- <-.
        destruct (IH s fs' st2 os Er) as (I1&I2&I3). cbv zeta in *.
        unfold all_midi in *. cbn [flat_map midi silent sigs all_sigs fold_right app]. fold (all_sigs os). auto.
      * destruct (step c s (ESample sa)) as [s1 o] eqn:Es. cbn [fst].
        destruct (frun_from c fc ai (s1, fs') r) as [[st2 os]|] eqn:Er; [|discriminate]. injection H as <- <-.
        destruct (IH s1 fs' st2 os Er) as (I1&I2&I3). cbv zeta in *. cbn [run_from]. rewrite Es.
        destruct (run_from c s1 (discrete_from c fc ai (s1, fs') r)) as [s2 os2]. cbn [fst snd] in *.
        unfold all_midi in *. cbn [flat_map all_sigs fold_right]. rewrite I2. fold (all_sigs os2) (all_sigs os). rewrite I3. auto.
    + destruct (frun_from c fc ai (s, fs) r) as [[st2 os]|] eqn:Er; [|discriminate]. injection H as <- <-.
      destruct (IH s fs st2 os Er) as (I1&I2&I3). cbv zeta in *. cbn [run_from step].
      destruct (run_from c s (discrete_from c fc ai (s, fs) r)) as [s2 os2]. cbn [fst snd] in *.
      unfold all_midi in *. cbn [flat_map midi silent sigs all_sigs fold_right app]. fold (all_sigs os2) (all_sigs os). auto.
Qed.

(* the discrete history of a run of the full machine *)
Definition discrete (c : config) (fc : fconfig) (ai : absinfos) (h : list fev) : list ev :=
  discrete_from c fc ai (init c, []) h.

(* the final device state, the messages (in order) and the number of exit signals of the full machine are those of the state
   machine on the discrete history; the lists of per-step outputs differ only by the silent steps of dropped axis events *)
Theorem frun_discrete c fc ai h st outs :
  frun c fc ai h = Some (st, outs) ->
  fst (run c (discrete c fc ai h)) = fst st /\
  all_midi (snd (run c (discrete c fc ai h))) = all_midi outs /\
  all_sigs (snd (run c (discrete c fc ai h))) = all_sigs outs.
Proof. intro H. exact (frun_from_discrete c fc ai h (init c) [] st outs H). Qed.

(* a run that does not panic did not panic on any prefix *)
Lemma frun_from_prefix c fc ai h r : forall st0 st outs,
  frun_from c fc ai st0 (h ++ r) = Some (st, outs) ->
  exists st1 outs1, frun_from c fc ai st0 h = Some (st1, outs1).
Proof.
  induction h as [|e h IH]; intros st0 st outs H; cbn [app frun_from] in *; [eauto|].
  destruct (fstep c fc ai st0 e) as [[st1 o]|]; [|discriminate].
  destruct (frun_from c fc ai st1 (h ++ r)) as [[st2 os]|] eqn:E; [|discriminate].
  destruct (IH _ _ _ E) as (st3&os3&E3). rewrite E3. eauto.
Qed.

(* ---------------------------------------------------------------------- key events: those of the raw history *)
Definition fkeys (h : list fev) : list ev :=
  map (fun e => match e with FKey sub code val => EKey sub code val | _ => ESyn end) h.

Lemma fkeys_app h r : fkeys (h ++ r) = fkeys h ++ fkeys r.
Proof. apply map_app. Qed.

Lemma discrete_alternating c fc ai h : forall st kt,
  alternating_from kt (fkeys h) -> alternating_from kt (discrete_from c fc ai st h).
Proof.
  induction h as [|e r IH]; intros [s fs] kt H; cbn [fkeys map discrete_from alternating_from] in *; [exact I|].
  destruct e as [sub code val|sub code raw|].
  - destruct H as [H1 H2]. cbn [alternating_from]. split; [exact H1|]. apply IH. exact H2.
  - destruct H as [_ H2]. cbn [next_keys] in H2.
    destruct (digest (nth (mapidx s) fc empty_fmapping) ai (find_analog c s sub code) fs sub code raw) as [[|sa|] fs'];
      try (apply IH; exact H2).
    cbn [alternating_from ok_press next_keys]. split; [exact I|]. apply IH. exact H2.
  - destruct H as [_ H2]. cbn [alternating_from ok_press next_keys] in *. split; [exact I|]. apply IH. exact H2.
Qed.

Lemma discrete_keys_down c fc ai h : forall st kt,
  fold_left next_keys (discrete_from c fc ai st h) kt = fold_left next_keys (fkeys h) kt.
Proof.
  induction h as [|e r IH]; intros [s fs] kt; cbn [fkeys map discrete_from fold_left]; [reflexivity|].
  destruct e as [sub code val|sub code raw|].
  - cbn [fold_left]. apply IH.
  - cbn [next_keys].
    destruct (digest (nth (mapidx s) fc empty_fmapping) ai (find_analog c s sub code) fs sub code raw) as [[|sa|] fs'];
      cbn [fold_left next_keys]; apply IH.
  - cbn [fold_left next_keys]. apply IH.
Qed.

(* ====================================================================== C01 *)
Theorem machine_disconnect c fc ai h r st outs :
  alternating (fkeys (h ++ r)) -> frun c fc ai h = Some (st, outs) ->
  recv [] (all_midi outs ++ snd (cleanup c (fst st))) = [].
Proof.
  intros Ha H. destruct (frun_discrete c fc ai h st outs H) as (E1&E2&_). rewrite <- E1, <- E2.
  apply disconnect_silences. apply discrete_alternating. rewrite fkeys_app in Ha. exact (alternating_prefix _ _ Ha).
Qed.

Theorem machine_quiescent c fc ai h r st outs :
  alternating (fkeys (h ++ r)) -> frun c fc ai h = Some (st, outs) ->
  keys_down (fkeys h) = [] -> analogT (fst st) = [] -> recv [] (all_midi outs) = [].
Proof.
  intros Ha H Hk Hn. destruct (frun_discrete c fc ai h st outs H) as (E1&E2&_). rewrite <- E2.
  apply quiescent_silent.
  - apply discrete_alternating. rewrite fkeys_app in Ha. exact (alternating_prefix _ _ Ha).
  - unfold keys_down, discrete. rewrite discrete_keys_down. exact Hk.
  - rewrite E1. exact Hn.
Qed.

(* ====================================================================== C07 *)
(* every axis entry the device can find (in any mapping) belongs to the family A *)
Definition axes_in (c : config) (A : list analog) : Prop :=
  forall m sub code a, get skey_eqb (sub, code) (m_analog (nth m (mappings c) empty_mapping)) = Some a -> In a A.
(* the raw events of C07's quantifier: any axis events, SYN, presses / releases of the CC-learning key *)
Definition c07_fevent (c : config) (e : fev) : Prop :=
  match e with FKey _ k _ => find_action c k = Some Learning | _ => True end.

Lemma make_sample_an code a canneg v : sa_an (make_sample code a canneg v) = a /\ sa_code (make_sample code a canneg v) = code.
Proof.
  unfold make_sample. destruct (cc_encode canneg (a_bidi a) v). destruct (pb_bytes true (centred canneg v)). split; reflexivity.
Qed.

Lemma digest_sample fm ai an fs sub code raw sa fs' :
  digest fm ai an fs sub code raw = (FSample sa, fs') -> exists a, an = Some a /\ sa_an sa = a /\ sa_code sa = code.
Proof.
  unfold digest. destruct an as [a|]; [|discriminate].
  destruct (match get N.eqb code ai with Some p => p | None => (0%Z, 0%Z) end) as [mn mx].
  destruct (lookup_deadzone fm sub code) as [dz|]; [|discriminate].
  destruct (shape mn mx (a_dzc a) dz raw) as [v cn].
  destruct (feq _ v); [discriminate|]. intro H. injection H as <- _. exists a. split; [reflexivity|apply make_sample_an].
Qed.

Lemma discrete_c07 c fc ai A h : axes_in c A -> forall st,
  Forall (c07_fevent c) h -> Forall (c07_event c A) (discrete_from c fc ai st h).
Proof.
  intro HA. induction h as [|e r IH]; intros [s fs] H; cbn [discrete_from]; [constructor|].
  inversion H as [|? ? H1 H2]; subst. destruct e as [sub code val|sub code raw|].
  - constructor; [exact H1|apply IH; exact H2].
  - destruct (digest (nth (mapidx s) fc empty_fmapping) ai (find_analog c s sub code) fs sub code raw) as [[|sa|] fs'] eqn:D;
      try (apply IH; exact H2).
    constructor; [|apply IH; exact H2]. cbn [c07_event].
    destruct (digest_sample _ _ _ _ _ _ _ _ _ D) as (a&Fa&Sa&_). rewrite Sa. exact (HA _ _ _ _ Fa).
  - constructor; [exact I|apply IH; exact H2].
Qed.

Theorem machine_c07_invariant c fc ai A h st outs :
  cc_family A -> axes_in c A -> Forall (c07_fevent c) h -> frun c fc ai h = Some (st, outs) ->
  Inv7 A (fst st) (recv_cc [] (all_midi outs)).
Proof.
  intros HF HA He H. destruct (frun_discrete c fc ai h st outs H) as (E1&E2&_). rewrite <- E1, <- E2.
  exact (proj2 (c07_run c A _ (init c) [] HF (discrete_c07 c fc ai A h HA _ He) (init_no_pair c) (init_Inv7 c A))).
Qed.

Theorem machine_c07_at_most_one c fc ai A h r st outs :
  cc_family A -> axes_in c A -> Forall (c07_fevent c) (h ++ r) -> frun c fc ai h = Some (st, outs) ->
  let s := fst st in let R := recv_cc [] (all_midi outs) in
  forall a, In a A -> a_bidi a = true -> cc_value R (pos_key s a) = 0 \/ cc_value R (neg_key s a) = 0.
Proof.
  intros HF HA He H s R a Ha Hb.
  exact (proj2 (machine_c07_invariant c fc ai A h st outs HF HA (forall_prefix _ _ _ He) H a Ha Hb)).
Qed.

(* ====================================================================== C08 *)
Theorem machine_exclusive c fc ai h st outs code :
  frun c fc ai h = Some (st, outs) ->
  tracked (fst st) (code, false) = None \/ tracked (fst st) (code, true) = None.
Proof.
  intro H. destruct (frun_discrete c fc ai h st outs H) as (E1&_). rewrite <- E1. exact (run_exclusive c _ code).
Qed.

(* one axis event of a key-emulating axis in the full machine: every message is the Note Off of exactly the pair recorded when
   that direction was turned on, or a Note On whose pair is recorded *)
Theorem machine_pairing c fc ai s fs sub code raw s' fs' o a m :
  fstep c fc ai (s, fs) (FAbs sub code raw) = Some ((s', fs'), o) ->
  find_analog c s sub code = Some a -> a_type a = AKeySim -> In m (midi o) ->
  (exists b n ch, tracked s (code, b) = Some (n, ch) /\ m = note_off ch n) \/
  (exists b n ch, tracked s (code, b) = None /\ tracked s' (code, b) = Some (n, ch) /\ m = note_on ch n 64).
Proof.
  cbn [fstep]. intros H Fa Ht Hm.
  destruct (digest (nth (mapidx s) fc empty_fmapping) ai (find_analog c s sub code) fs sub code raw) as [[|sa|] fs1] eqn:D;
    [| |discriminate].
  - injection H as <- _ <-. destruct Hm.
  - destruct (digest_sample _ _ _ _ _ _ _ _ _ D) as (a'&Fa'&Sa&Sc). rewrite Fa in Fa'. injection Fa' as <-.
    cbn [step] in H. unfold handle_sample in H. rewrite Sa, Ht in H.
    destruct (learning s && negb (sa_gate sa)); [injection H as <- _ <-; destruct Hm|].
    pose proof (keysim_messages s sa m) as K. destruct (handle_keysim s sa) as [s1 ms]. injection H as <- _ <-.
    cbn [midi emit fst snd] in *. rewrite Sc in K. exact (K Hm).
Qed.
