(* What a key press / release / action does, exactly (C02, C03, C04). *)
From Coq Require Import List NArith ZArith Bool Lia.
From HIDI Require Import Base.AList Model.Device Proofs.DeviceBasics Proofs.Recv Proofs.DeviceInv Proofs.ExitSeq.
Import ListNotations.
Open Scope N_scope.

(* the (note, channel) pair a press of (sub, code) resolves to in state s: current mapping, transposition, channel offset *)
Definition resolved (c : config) (s : state) (sub code : N) : option pair :=
  match find_key c s sub code with
  | Some k => let t := transpose s (k_note k) in
              if in_midi_range t then Some (Z.to_N t, chan_of s (k_off k)) else None
  | None => None
  end.

(* messages of a press / a release as a function of the number of current holders of the pair *)
Definition press_msgs (m : cmode) (vel : N) (p : pair) (holders : Z) : list msg :=
  let '(note, ch) := p in
  match m with
  | COff | CRetrigger => [note_on ch note vel]
  | CNoRepeat => if (0 <? holders)%Z then [] else [note_on ch note vel]
  | CInterrupt => if (0 <? holders)%Z then [note_off ch note; note_on ch note vel] else [note_on ch note vel]
  end.

Definition release_msgs (m : cmode) (p : pair) (holders : Z) : list msg :=
  let '(note, ch) := p in
  match m with
  | COff => [note_off ch note]
  | _ => if (holders =? 1)%Z then [note_off ch note] else []
  end.

Lemma note_on_key_resolved c s sub code :
  note_on_key c s sub code =
  match resolved c s sub code with
  | None => (s, [])
  | Some p => (bump p 1 (set_noteT (set N.eqb code p (noteT s)) s), press_msgs (cmode_of c) (velocity s) p (count_of s p))
  end.
Proof.
  unfold note_on_key, resolved. destruct (find_key c s sub code) as [k|]; [|reflexivity].
  cbv zeta. destruct (in_midi_range (transpose s (k_note k))); [|reflexivity].
  unfold press_msgs. destruct (cmode_of c); reflexivity.
Qed.

Lemma note_off_key_tracked c s code :
  note_off_key c s code =
  match get N.eqb code (noteT s) with
  | None => (s, [])
  | Some p => (bump p (-1) (set_noteT (del N.eqb code (noteT s)) s), release_msgs (cmode_of c) p (count_of s p))
  end.
Proof.
  unfold note_off_key. destruct (get N.eqb code (noteT s)) as [[n ch]|]; [|reflexivity].
  unfold release_msgs. destruct (cmode_of c); reflexivity.
Qed.

(* ---- a press of a key that is not an action key and does not complete the exit sequence *)
Lemma press_step c s sub code :
  find_action c code = None -> exit_complete c (sadd N.eqb code (keyT s)) = false ->
  step c s (EKey sub code 1) =
  let s1 := set_keyT (sadd N.eqb code (keyT s)) s in
  match resolved c s sub code with
  | None => (s1, silent)
  | Some p => (bump p 1 (set_noteT (set N.eqb code p (noteT s)) s1),
               emit (press_msgs (cmode_of c) (velocity s) p (count_of s p)))
  end.
Proof.
  intros Ha Hex. cbn [step]. change (1 =? 2)%Z with false. cbv iota. unfold handle_key.
  change (1 =? 1)%Z with true. cbv iota. cbn [keyT set_keyT andb]. rewrite Hex, Ha.
  pose proof (note_on_key_resolved c (set_keyT (sadd N.eqb code (keyT s)) s) sub code) as E.
  change (resolved c (set_keyT ?k s) sub code) with (resolved c s sub code) in E.
  unfold resolved in *. destruct (find_key c s sub code) as [k|] eqn:Ek.
  - rewrite E. cbv zeta. destruct (in_midi_range (transpose s (k_note k))); reflexivity.
  - reflexivity.
Qed.

Lemma release_step c s sub code :
  find_action c code = None ->
  step c s (EKey sub code 0) =
  let s1 := set_keyT (srem N.eqb code (keyT s)) s in
  match get N.eqb code (noteT s) with
  | None => (s1, silent)
  | Some p => (bump p (-1) (set_noteT (del N.eqb code (noteT s)) s1),
               emit (release_msgs (cmode_of c) p (count_of s p)))
  end.
Proof.
  intros Ha. cbn [step]. change (0 =? 2)%Z with false. cbv iota. unfold handle_key.
  change (0 =? 1)%Z with false. change (0 =? 0)%Z with true. cbv iota. cbn [andb]. rewrite Ha.
  pose proof (note_off_key_tracked c (set_keyT (srem N.eqb code (keyT s)) s) code) as E.
  cbn [noteT set_keyT] in E. change (count_of (set_keyT ?k s) ?p) with (count_of s p) in E.
  assert (R : (let '(s2, m) := note_off_key c (set_keyT (srem N.eqb code (keyT s)) s) code in (s2, emit m)) =
              match get N.eqb code (noteT s) with
              | None => (set_keyT (srem N.eqb code (keyT s)) s, silent)
              | Some p => (bump p (-1) (set_noteT (del N.eqb code (noteT s)) (set_keyT (srem N.eqb code (keyT s)) s)),
                           emit (release_msgs (cmode_of c) p (count_of s p)))
              end).
  { rewrite E. destruct (get N.eqb code (noteT s)); reflexivity. }
  destruct (find_key c s sub code); exact R.
Qed.

(* ---- the tracker entry of a key is untouched by every event that is not a press/release of that key code *)
Definition not_key_event (k : N) (e : ev) : Prop :=
  match e with EKey _ k' v => k' <> k \/ v = 2%Z | _ => True end.

Lemma note_on_key_get_other c s sub code k :
  k <> code -> get N.eqb k (noteT (fst (note_on_key c s sub code))) = get N.eqb k (noteT s).
Proof.
  intro H. rewrite note_on_key_resolved. destruct (resolved c s sub code); [|reflexivity].
  cbn [fst noteT bump set_counter set_noteT]. apply (get_set_other N.eqb Neqb_spec). exact H.
Qed.

Lemma note_off_key_get_other c s code k :
  k <> code -> get N.eqb k (noteT (fst (note_off_key c s code))) = get N.eqb k (noteT s).
Proof.
  intro H. rewrite note_off_key_tracked. destruct (get N.eqb code (noteT s)); [|reflexivity].
  cbn [fst noteT bump set_counter set_noteT]. apply (get_del_other N.eqb Neqb_spec). exact H.
Qed.

Lemma handle_key_noteT_other c s sub code val k :
  k <> code -> get N.eqb k (noteT (fst (handle_key c s sub code val))) = get N.eqb k (noteT s).
Proof.
  intro Hne. unfold handle_key.
  set (s1 := if (val =? 1)%Z then set_keyT (sadd N.eqb code (keyT s)) s else set_keyT (srem N.eqb code (keyT s)) s).
  assert (HN1 : noteT s1 = noteT s) by (subst s1; destruct (val =? 1)%Z; reflexivity).
  clearbody s1. rewrite <- HN1.
  destruct ((val =? 1)%Z && exit_complete c (keyT s1)); [reflexivity|].
  destruct (find_action c code) as [a|].
  - destruct (val =? 1)%Z.
    + destruct (check_double _) as [s3|] eqn:E.
      * cbn [fst]. apply check_double_tf in E. unfold tf in E. injection E as -> _ _. reflexivity.
      * destruct (invoke_press c a _) as [s3 m] eqn:E1. cbn [fst]. apply invoke_press_tf in E1.
        unfold tf in E1. injection E1 as -> _ _. reflexivity.
    + destruct (val =? 0)%Z; [|reflexivity]. cbn [fst noteT set_actionT]. destruct a; reflexivity.
  - destruct (find_key c s sub code).
    + destruct (val =? 1)%Z.
      * pose proof (note_on_key_get_other c s1 sub code k Hne) as G.
        destruct (note_on_key c s1 sub code). exact G.
      * destruct (val =? 0)%Z; [|reflexivity].
        pose proof (note_off_key_get_other c s1 code k Hne) as G. destruct (note_off_key c s1 code). exact G.
    + destruct (val =? 0)%Z; [|reflexivity].
      pose proof (note_off_key_get_other c s1 code k Hne) as G. destruct (note_off_key c s1 code). exact G.
Qed.

Lemma step_noteT_other c s e k :
  not_key_event k e -> get N.eqb k (noteT (fst (step c s e))) = get N.eqb k (noteT s).
Proof.
  destruct e as [sub code val|sa|]; cbn [step not_key_event]; intro H.
  - destruct (val =? 2)%Z eqn:E2; [reflexivity|].
    destruct H as [H|H]; [|subst val; discriminate]. apply handle_key_noteT_other. congruence.
  - pose proof (handle_sample_kf c s sa) as F. unfold kf in F. injection F as -> _ _. reflexivity.
  - reflexivity.
Qed.

Lemma run_from_noteT_other c k h : forall s,
  Forall (not_key_event k) h -> get N.eqb k (noteT (fst (run_from c s h))) = get N.eqb k (noteT s).
Proof.
  induction h as [|e r IH]; intros s H; cbn [run_from]; [reflexivity|].
  inversion H as [|? ? H1 H2]; subst.
  pose proof (step_noteT_other c s e k H1) as G. destruct (step c s e) as [s1 o]. cbn [fst] in G.
  specialize (IH s1 H2). destruct (run_from c s1 r) as [s2 os]. cbn [fst] in *. congruence.
Qed.

(* ---- C02: release pinned to the press *)
Definition press_pair (c : config) (s : state) (sub code : N) : option pair :=
  if exit_complete c (sadd N.eqb code (keyT s)) then None else resolved c s sub code.

Lemma press_msgs_shape m vel p holders x :
  In x (press_msgs m vel p holders) -> x = note_on (snd p) (fst p) vel \/ x = note_off (snd p) (fst p).
Proof.
  destruct p as [n ch]. unfold press_msgs. cbn [fst snd].
  destruct m; try destruct (0 <? holders)%Z; cbn; intuition.
Qed.

Lemma release_msgs_shape m p holders x :
  In x (release_msgs m p holders) -> x = note_off (snd p) (fst p).
Proof.
  destruct p as [n ch]. unfold release_msgs. cbn [fst snd].
  destruct m; try destruct (holders =? 1)%Z; cbn; intuition.
Qed.

Lemma run_snoc c h e :
  run c (h ++ [e]) = (fst (step c (fst (run c h)) e), snd (run c h) ++ [snd (step c (fst (run c h)) e)]).
Proof.
  unfold run. rewrite run_from_app. destruct (run_from c (init c) h) as [s1 o1]. cbn [run_from fst snd].
  destruct (step c s1 e). reflexivity.
Qed.

Lemma release_pinned c h1 sub k h2 sub' :
  alternating (h1 ++ EKey sub k 1 :: h2 ++ [EKey sub' k 0]) ->
  Forall (not_key_event k) h2 ->
  find_action c k = None ->
  let s0 := fst (run c h1) in
  let H := h1 ++ EKey sub k 1 :: h2 ++ [EKey sub' k 0] in
  let o_press := out_at c H (length h1) in
  let o_rel := out_at c H (length h1 + 1 + length h2) in
  match press_pair c s0 sub k with
  | Some (n, ch) =>
      (forall m, In m (midi o_press) -> m = note_on ch n (velocity s0) \/ m = note_off ch n) /\
      (forall m, In m (midi o_rel) -> m = note_off ch n) /\
      get N.eqb k (noteT (fst (run c (h1 ++ EKey sub k 1 :: h2)))) = Some (n, ch)
  | None => midi o_press = [] /\ midi o_rel = []
  end.
Proof.
  intros Halt Hh2 Ha s0 H o_press o_rel.
  assert (Halt1 : alternating h1) by (apply (alternating_prefix _ _ Halt)).
  destruct (run_inv c h1 Halt1) as (HI&HSub&_). fold s0 in HI, HSub.
  (* the key is up before the press, hence untracked *)
  assert (Hup : ~ In k (keyT s0)).
  { unfold alternating in Halt. apply alternating_from_app in Halt. destruct Halt as [_ Halt].
    cbn in Halt. destruct Halt as [[Hp _] _]. subst s0. rewrite run_keyT. apply Hp. reflexivity. }
  assert (Hnone : get N.eqb k (noteT s0) = None).
  { apply (notin_get_none N.eqb Neqb_spec). intro Hin. apply Hup. apply HSub. exact Hin. }
  (* the press *)
  assert (Ep : o_press = snd (step c s0 (EKey sub k 1))) by (apply nth_run_state).
  (* state after press and h2 *)
  set (s1 := fst (step c s0 (EKey sub k 1))).
  assert (Erun : fst (run c (h1 ++ EKey sub k 1 :: h2)) = fst (run_from c s1 h2)).
  { unfold run. rewrite run_from_app. destruct (run_from c (init c) h1) as [sa oa] eqn:Er.
    assert (Es : sa = s0) by (subst s0; unfold run; rewrite Er; reflexivity). rewrite Es.
    cbn [run_from]. subst s1. destruct (step c s0 (EKey sub k 1)) as [sb ob]. cbn [fst].
    destruct (run_from c sb h2). reflexivity. }
  assert (Er : o_rel = snd (step c (fst (run c (h1 ++ EKey sub k 1 :: h2))) (EKey sub' k 0))).
  { subst o_rel H. unfold out_at.
    replace (h1 ++ EKey sub k 1 :: h2 ++ [EKey sub' k 0]) with ((h1 ++ EKey sub k 1 :: h2) ++ EKey sub' k 0 :: [])
      by (rewrite <- app_assoc; reflexivity).
    replace (length h1 + 1 + length h2)%nat with (length (h1 ++ EKey sub k 1 :: h2))
      by (rewrite app_length; cbn; lia).
    apply nth_run_state. }
  assert (Hfrozen : get N.eqb k (noteT (fst (run c (h1 ++ EKey sub k 1 :: h2)))) = get N.eqb k (noteT s1)).
  { rewrite Erun. apply run_from_noteT_other. exact Hh2. }
  rewrite Er, Ep. rewrite (release_step c _ sub' k Ha). cbv zeta. rewrite Hfrozen.
  unfold press_pair. subst s1.
  destruct (exit_complete c (sadd N.eqb k (keyT s0))) eqn:Eex.
  - rewrite (step_swallowed c s0 sub k Eex). cbn [fst snd midi noteT set_keyT]. rewrite Hnone. cbn. auto.
  - rewrite (press_step c s0 sub k Ha Eex). cbv zeta.
    destruct (resolved c s0 sub k) as [[n ch]|].
    + cbn [fst snd midi emit noteT bump set_counter set_noteT set_keyT].
      rewrite (get_set_same N.eqb Neqb_spec). cbn [snd midi emit]. split; [|split; [|reflexivity]].
      * intros m Hm. apply press_msgs_shape in Hm. exact Hm.
      * intros m Hm. apply release_msgs_shape in Hm. exact Hm.
    + cbn [fst snd midi silent noteT set_keyT]. rewrite Hnone. cbn. auto.
Qed.

(* ---- C02: state actions are silent and only touch playing state *)
Lemma action_key_silent c s sub k v a :
  find_action c k = Some a -> a <> Panic ->
  midi (snd (step c s (EKey sub k v))) = [] /\ same_trackers s (fst (step c s (EKey sub k v))).
Proof.
  intros Ha Hp. cbn [step]. destruct (v =? 2)%Z; [split; [reflexivity|apply same_trackers_refl]|].
  unfold handle_key.
  set (s1 := if (v =? 1)%Z then set_keyT (sadd N.eqb k (keyT s)) s else set_keyT (srem N.eqb k (keyT s)) s).
  assert (T1 : same_trackers s s1) by (subst s1; destruct (v =? 1)%Z; unfold same_trackers; cbn; repeat split).
  clearbody s1.
  destruct ((v =? 1)%Z && exit_complete c (keyT s1)); [split; [reflexivity|exact T1]|].
  rewrite Ha. destruct (v =? 1)%Z.
  - destruct (check_double _) as [s3|] eqn:E.
    + split; [reflexivity|]. apply check_double_frame in E. destruct E as (E&_).
      eapply same_trackers_trans; [exact T1|]. eapply same_trackers_trans; [|exact E]. repeat split.
    + pose proof (invoke_press_frame c a (set_actionT (sadd action_eqb a (actionT s1)) s1)) as F.
      pose proof (invoke_press_silent c a (set_actionT (sadd action_eqb a (actionT s1)) s1) Hp) as Sil.
      destruct (invoke_press c a _) as [s3 m]. cbn [fst snd midi emit] in *. split; [exact Sil|].
      destruct F as (F&_). eapply same_trackers_trans; [exact T1|]. eapply same_trackers_trans; [|exact F]. repeat split.
  - destruct (v =? 0)%Z; [|split; [reflexivity|exact T1]]. cbn [fst snd midi silent]. split; [reflexivity|].
    pose proof (invoke_release_frame a s1) as F. destruct F as (F&_).
    eapply same_trackers_trans; [exact T1|]. eapply same_trackers_trans; [exact F|]. repeat split.
Qed.

(* ---- C03: emission per collision mode in terms of the number of holders of the pair *)
Definition holders (s : state) (p : pair) : nat := mult p (vals (noteT s)).

Lemma collision_press c h sub k p :
  alternating (h ++ [EKey sub k 1]) -> find_action c k = None ->
  let s := fst (run c h) in
  press_pair c s sub k = Some p ->
  midi (snd (step c s (EKey sub k 1))) = press_msgs (cmode_of c) (velocity s) p (Z.of_nat (holders s p)) /\
  holders (fst (step c s (EKey sub k 1))) p = S (holders s p).
Proof.
  intros Halt Ha s Hp.
  assert (Halt1 : alternating h) by (apply (alternating_prefix _ _ Halt)).
  destruct (run_inv c h Halt1) as (HI&HSub&_). fold s in HI, HSub.
  assert (Hup : ~ In k (keys (noteT s))).
  { intro Hin. apply HSub in Hin. unfold alternating in Halt. apply alternating_from_app in Halt. destruct Halt as [_ Halt].
    cbn in Halt. destruct Halt as [[Hq _] _]. subst s. rewrite run_keyT in Hin. exact (Hq eq_refl Hin). }
  unfold press_pair in Hp. destruct (exit_complete c (sadd N.eqb k (keyT s))) eqn:Eex; [discriminate|].
  rewrite (press_step c s sub k Ha Eex). cbv zeta. rewrite Hp. cbn [fst snd midi emit].
  rewrite (inv_count c s HI). split; [reflexivity|].
  unfold holders. cbn [noteT bump set_counter set_noteT set_keyT].
  rewrite (vals_set_notin N.eqb Neqb_spec _ _ _ Hup). rewrite mult_cons.
  rewrite (proj2 (pair_eqb_spec p p) eq_refl). reflexivity.
Qed.

Lemma collision_release c h sub k p :
  alternating (h ++ [EKey sub k 0]) -> find_action c k = None ->
  let s := fst (run c h) in
  get N.eqb k (noteT s) = Some p ->
  midi (snd (step c s (EKey sub k 0))) = release_msgs (cmode_of c) p (Z.of_nat (holders s p)) /\
  S (holders (fst (step c s (EKey sub k 0))) p) = holders s p.
Proof.
  intros Halt Ha s Hg.
  assert (Halt1 : alternating h) by (apply (alternating_prefix _ _ Halt)).
  destruct (run_inv c h Halt1) as (HI&HSub&_). fold s in HI, HSub.
  rewrite (release_step c s sub k Ha). cbv zeta. rewrite Hg. cbn [fst snd midi emit].
  rewrite (inv_count c s HI). split; [reflexivity|].
  unfold holders. cbn [noteT bump set_counter set_noteT set_keyT].
  rewrite (mult_vals_del N.eqb Neqb_spec k p p _ (inv_nodup c s HI) Hg).
  rewrite (proj2 (pair_eqb_spec p p) eq_refl). reflexivity.
Qed.

(* in the managed modes a Note Off for the pair is sent exactly by the release of its last holder *)
Lemma managed_release_last c p n :
  cmode_of c <> COff ->
  release_msgs (cmode_of c) p (Z.of_nat n) = if Nat.eqb n 1 then [note_off (snd p) (fst p)] else [].
Proof.
  intro Hm. destruct p as [note ch]. unfold release_msgs. cbn [fst snd].
  destruct (cmode_of c); try congruence;
    destruct (Nat.eqb_spec n 1) as [->|Hne]; try reflexivity;
    destruct (Z.eqb_spec (Z.of_nat n) 1); try reflexivity; lia.
Qed.
