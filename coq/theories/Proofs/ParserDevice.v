(* The link between the parser model and the device model: what an accepted file gives the device. *)
From Coq Require Import List NArith ZArith Bool Lia.
From HIDI Require Import Base.AList Model.Notes Model.Device Model.Parser Proofs.ParserProofs Proofs.DeviceBasics Proofs.DeviceWf
  Proofs.DeviceActions.
Import ListNotations.
Open Scope N_scope.

(* sub-handler names become small integers in the device model; any numbering will do *)
Definition flatten_sub {A} (subid : str -> N) (l : list (str * list (N * A))) : list (skey * A) :=
  flat_map (fun sm => map (fun ca => ((subid (fst sm), fst ca), snd ca)) (snd sm)) l.

Definition to_mapping (subid : str -> N) (i : N) (pm : pmapping) : mapping :=
  {| m_name := i; m_midi := flatten_sub subid (pm_midi pm); m_analog := flatten_sub subid (pm_analog pm) |}.

Fixpoint to_mappings (subid : str -> N) (i : N) (l : list pmapping) : list mapping :=
  match l with [] => [] | pm :: r => to_mapping subid i pm :: to_mappings subid (i + 1) r end.

Definition to_device (subid : str -> N) (c : pconfig) : config :=
  {| mappings := to_mappings subid 0 (p_mappings c); actions := p_actions c; exitseq := p_exit c; cmode_of := p_cmode c;
     d_octave := p_octave c; d_semitone := p_semitone c; d_channel := p_channel c; d_mapping := p_mapping c;
     d_velocity := p_velocity c |}.

Lemma to_mappings_length subid l : forall i, length (to_mappings subid i l) = length l.
Proof. induction l as [|pm r IH]; intro i; cbn; [reflexivity|f_equal; apply IH]. Qed.

(* every configuration the parser accepts satisfies the hypotheses of C05_wf and C04_mapping_in_range *)
Lemma accepted_gives_wf T t c subid :
  convert T t = Ok c ->
  wf_defaults (to_device subid c) /\
  (d_mapping (to_device subid c) < length (mappings (to_device subid c)))%nat.
Proof.
  intro H. pose proof (convert_ranges T t c H) as (W1&W2&W3&W4&W5&W6). split.
  - unfold wf_defaults. cbn. lia.
  - cbn. rewrite to_mappings_length. exact W2.
Qed.

Lemma in_flatten {A} subid (l : list (str * list (N * A))) k a :
  In (k, a) (flatten_sub subid l) -> exists sub m code, In (sub, m) l /\ In (code, a) m /\ k = (subid sub, code).
Proof.
  unfold flatten_sub. intro H. apply in_flat_map in H. destruct H as [[sub m] [H1 H2]].
  apply in_map_iff in H2. destruct H2 as [[code a'] [E H2]]. cbn in E. injection E as <- <-.
  exists sub, m, code. auto.
Qed.

Lemma in_to_mappings subid l : forall i m, In m (to_mappings subid i l) -> exists j pm, In pm l /\ m = to_mapping subid j pm.
Proof.
  induction l as [|pm r IH]; intros i m H; [contradiction|]. cbn in H. destruct H as [<-|H].
  - exists i, pm. split; [left; reflexivity|reflexivity].
  - destruct (IH _ _ H) as (j&pm'&H1&H2). exists j, pm'. split; [right; exact H1|exact H2].
Qed.

(* ... and every axis entry the device can ever look up has controller numbers, notes and offsets in range *)
Lemma accepted_analog_in_range T t c subid s sub code a :
  convert T t = Ok c ->
  find_analog (to_device subid c) s sub code = Some a ->
  a_cc a < 128 /\ a_ccneg a < 128 /\ a_note a < 128 /\ a_noteneg a < 128 /\ a_off a < 16 /\ a_offneg a < 16.
Proof.
  intros H Hf. pose proof (convert_ranges T t c H) as (W1&W2&W3&_).
  unfold find_analog, cur_mapping in Hf.
  apply (get_some_in skey_eqb skey_eqb_spec) in Hf.
  set (ms := mappings (to_device subid c)) in *.
  destruct (nth_in_or_default (mapidx s) ms empty_mapping) as [Hin|Hd]; [|rewrite Hd in Hf; contradiction].
  cbn in ms. subst ms. destruct (in_to_mappings _ _ _ _ Hin) as (j&pm&Hpm&E). rewrite E in Hf. cbn in Hf.
  destruct (in_flatten _ _ _ _ Hf) as (sb&m&cd&H1&H2&_).
  rewrite Forall_forall in W3. specialize (W3 pm Hpm). destruct W3 as [_ WA].
  rewrite Forall_forall in WA. specialize (WA _ H1). rewrite Forall_forall in WA. specialize (WA _ H2).
  cbn in WA. destruct WA as (_&A1&A2&A3&A4&A5&A6&_). lia.
Qed.
