(* C13: panic transparency without the "no other panic source is engaged" hypothesis, by a simulation relation.
   [panic_eq s s']: the two states agree on every field except the action tracker, and the action trackers agree apart
   from Panic.  Every event preserves the relation and produces the same output from related states. *)
From Coq Require Import List NArith ZArith Bool Lia.
From HIDI Require Import Base.AList Model.Device Proofs.DeviceBasics Proofs.DeviceActions Proofs.DevicePanic.
Import ListNotations.
Open Scope N_scope.

(* ------------------------------------------------------------------ the relation *)
(* the tracked actions apart from Panic, as a list (order included: sadd / srem act the same way on both sides) *)
Definition aeq (l l' : list action) : Prop := srem action_eqb Panic l = srem action_eqb Panic l'.

Definition panic_eq (s s' : state) : Prop :=
  octave s' = octave s /\ semitone s' = semitone s /\ channel s' = channel s /\ velocity s' = velocity s /\
  mapidx s' = mapidx s /\ learning s' = learning s /\ noteT s' = noteT s /\ analogT s' = analogT s /\
  counter s' = counter s /\ ccZ s' = ccZ s /\ keyT s' = keyT s /\
  srem action_eqb Panic (actionT s) = srem action_eqb Panic (actionT s').

Lemma panic_eq_refl s : panic_eq s s.
Proof. unfold panic_eq. repeat split. Qed.

Lemma panic_eq_sym s s' : panic_eq s s' -> panic_eq s' s.
Proof. unfold panic_eq. intros (?&?&?&?&?&?&?&?&?&?&?&?). repeat split; congruence. Qed.

Lemma panic_eq_trans s s' s'' : panic_eq s s' -> panic_eq s' s'' -> panic_eq s s''.
Proof.
  unfold panic_eq. intros (?&?&?&?&?&?&?&?&?&?&?&?) (?&?&?&?&?&?&?&?&?&?&?&?). repeat split; congruence.
Qed.

(* a related state is the same state with another action tracker *)
Lemma panic_eq_elim s s' : panic_eq s s' -> s' = set_actionT (actionT s') s.
Proof.
  destruct s as [o st ch v m le nT aT cn l cz kT], s' as [o' st' ch' v' m' le' nT' aT' cn' l' cz' kT'].
  unfold panic_eq, set_actionT. cbn [octave semitone channel velocity mapidx learning noteT analogT counter actionT ccZ keyT].
  intros (->&->&->&->&->&->&->&->&->&->&->&_). reflexivity.
Qed.

Lemma panic_eq_intro s l : aeq (actionT s) l -> panic_eq s (set_actionT l s).
Proof. intro H. unfold panic_eq. cbn [octave semitone channel velocity mapidx learning noteT analogT counter actionT ccZ keyT set_actionT]. repeat split. exact H. Qed.

Lemma set_actionT_eta s : set_actionT (actionT s) s = s.
Proof. destruct s. reflexivity. Qed.

(* ------------------------------------------------------------------ list facts *)
Lemma srem_comm (a b : action) l : srem action_eqb a (srem action_eqb b l) = srem action_eqb b (srem action_eqb a l).
Proof.
  induction l as [|x r IH]; [reflexivity|]. unfold srem in *. cbn [filter].
  destruct (action_eqb b x) eqn:Eb, (action_eqb a x) eqn:Ea; cbn [negb filter]; rewrite ?Ea, ?Eb; cbn [negb]; rewrite IH; reflexivity.
Qed.

Lemma srem_idem (a : action) l : srem action_eqb a (srem action_eqb a l) = srem action_eqb a l.
Proof.
  apply (srem_notin action_eqb action_eqb_spec). intro H. apply (in_srem action_eqb action_eqb_spec) in H. destruct H as [_ H]. congruence.
Qed.

Lemma srem_cons_other (a x : action) l : x <> a -> srem action_eqb a (x :: l) = x :: srem action_eqb a l.
Proof.
  intro H. unfold srem. cbn [filter]. destruct (action_eqb a x) eqn:E; [apply action_eqb_spec in E; congruence|reflexivity].
Qed.

Lemma srem_cons_same (a : action) l : srem action_eqb a (a :: l) = srem action_eqb a l.
Proof. unfold srem. cbn [filter]. rewrite (proj2 (action_eqb_spec a a) eq_refl). reflexivity. Qed.

Lemma aeq_srem a l l' : aeq l l' -> aeq (srem action_eqb a l) (srem action_eqb a l').
Proof. unfold aeq. intro H. rewrite (srem_comm Panic a l), (srem_comm Panic a l'), H. reflexivity. Qed.

Lemma aeq_sadd a l l' : aeq l l' -> aeq (sadd action_eqb a l) (sadd action_eqb a l').
Proof.
  intro H. pose proof (aeq_srem a l l' H) as H1. unfold aeq, sadd in *.
  destruct (action_eqb a Panic) eqn:E.
  - apply action_eqb_spec in E. subst a. rewrite !srem_cons_same. exact H1.
  - assert (a <> Panic) as Hne by (intros ->; discriminate). rewrite !srem_cons_other by exact Hne. rewrite H1. reflexivity.
Qed.

Lemma mem_srem_other (a b : action) l : a <> b -> mem action_eqb a (srem action_eqb b l) = mem action_eqb a l.
Proof.
  intro H. destruct (mem action_eqb a l) eqn:E.
  - apply (mem_in action_eqb action_eqb_spec). apply (in_srem action_eqb action_eqb_spec). split; [|exact H].
    apply (mem_in action_eqb action_eqb_spec). exact E.
  - apply (mem_false action_eqb action_eqb_spec). intro Hin. apply (in_srem action_eqb action_eqb_spec) in Hin.
    destruct Hin as [Hin _]. apply (mem_in action_eqb action_eqb_spec) in Hin. congruence.
Qed.

Lemma aeq_mem a l l' : a <> Panic -> aeq l l' -> mem action_eqb a l = mem action_eqb a l'.
Proof.
  intros Hne H. rewrite <- (mem_srem_other a Panic l Hne), <- (mem_srem_other a Panic l' Hne). unfold aeq in H. rewrite H. reflexivity.
Qed.

Lemma panic_eq_has_action s s' a : panic_eq s s' -> a <> Panic -> has_action s a = has_action s' a.
Proof. intros H Hne. unfold has_action. apply aeq_mem; [exact Hne|]. apply H. Qed.

(* ------------------------------------------------------------------ operations that neither read nor write the action tracker *)
Definition lifts {A} (f : state -> state * A) : Prop :=
  forall s l, f (set_actionT l s) = (set_actionT l (fst (f s)), snd (f s)).
Definition lifts1 (g : state -> state) : Prop := forall s l, g (set_actionT l s) = set_actionT l (g s).

Definition sim_out {A} (p p' : state * A) : Prop := snd p = snd p' /\ panic_eq (fst p) (fst p').

Lemma lifts_frame {A} (f : state -> state * A) s : lifts f -> actionT (fst (f s)) = actionT s.
Proof.
  intro Hf. pose proof (Hf s (actionT s)) as E. rewrite set_actionT_eta in E.
  apply (f_equal (fun p => actionT (fst p))) in E. cbn [fst actionT set_actionT] in E. exact E.
Qed.

Lemma panic_eq_lift {A} (f : state -> state * A) : lifts f -> forall s s', panic_eq s s' -> sim_out (f s) (f s').
Proof.
  intros Hf s s' H. pose proof (panic_eq_elim s s' H) as E.
  assert (Ha : aeq (actionT s) (actionT s')) by apply H.
  remember (actionT s') as l' eqn:El. clear El H. subst s'.
  unfold sim_out. rewrite (Hf s l'). cbn [fst snd]. split; [reflexivity|].
  apply panic_eq_intro. rewrite (lifts_frame f s Hf). exact Ha.
Qed.

Lemma panic_eq_lift1 (g : state -> state) : lifts1 g -> forall s s', panic_eq s s' -> panic_eq (g s) (g s').
Proof.
  intros Hg s s' H.
  assert (Hf : lifts (fun x => (g x, tt))) by (intros x l; cbn [fst snd]; rewrite (Hg x l); reflexivity).
  exact (proj2 (panic_eq_lift _ Hf s s' H)).
Qed.

(* operations on the action tracker that respect "same apart from Panic" *)
Lemma panic_eq_act (g : list action -> list action) :
  (forall l l', aeq l l' -> aeq (g l) (g l')) ->
  forall s s', panic_eq s s' -> panic_eq (set_actionT (g (actionT s)) s) (set_actionT (g (actionT s')) s').
Proof.
  intros Hg s s'. unfold panic_eq.
  cbn [octave semitone channel velocity mapidx learning noteT analogT counter actionT ccZ keyT set_actionT].
  intros (?&?&?&?&?&?&?&?&?&?&?&Ha). repeat split; try assumption. apply Hg. exact Ha.
Qed.

Lemma track_sim a s s' : panic_eq s s' -> panic_eq (track_action a s) (track_action a s').
Proof. apply (panic_eq_act (sadd action_eqb a)). apply aeq_sadd. Qed.

Lemma untrack_sim a s s' : panic_eq s s' -> panic_eq (untrack_action a s) (untrack_action a s').
Proof. apply (panic_eq_act (srem action_eqb a)). apply aeq_srem. Qed.

(* ---- lifting lemmas for the individual operations *)
Lemma invoke_press_lift c a s l :
  invoke_press c a (set_actionT l s) = (set_actionT l (fst (invoke_press c a s)), snd (invoke_press c a s)).
Proof.
  destruct a; cbn [invoke_press mapidx channel set_actionT];
    repeat match goal with |- context [if ?b then _ else _] => destruct b end; reflexivity.
Qed.

Lemma invoke_release_lift a : lifts1 (invoke_release a).
Proof. intros s l. destruct a; reflexivity. Qed.

Lemma note_on_key_lift c sub code s l :
  note_on_key c (set_actionT l s) sub code = (set_actionT l (fst (note_on_key c s sub code)), snd (note_on_key c s sub code)).
Proof.
  unfold note_on_key. change (find_key c (set_actionT l s) sub code) with (find_key c s sub code).
  destruct (find_key c s sub code) as [k|]; [|reflexivity].
  change (transpose (set_actionT l s) (k_note k)) with (transpose s (k_note k)).
  destruct (in_midi_range (transpose s (k_note k))); reflexivity.
Qed.

Lemma note_off_key_lift c code s l :
  note_off_key c (set_actionT l s) code = (set_actionT l (fst (note_off_key c s code)), snd (note_off_key c s code)).
Proof.
  unfold note_off_key. change (noteT (set_actionT l s)) with (noteT s).
  destruct (get N.eqb code (noteT s)) as [[n ch]|]; reflexivity.
Qed.

Lemma analog_note_on_lift id n off s l :
  analog_note_on (set_actionT l s) id n off = (set_actionT l (fst (analog_note_on s id n off)), snd (analog_note_on s id n off)).
Proof.
  unfold analog_note_on. change (transpose (set_actionT l s) n) with (transpose s n).
  destruct (in_midi_range (transpose s n)); reflexivity.
Qed.

Lemma analog_note_off_lift id s l :
  analog_note_off (set_actionT l s) id = (set_actionT l (fst (analog_note_off s id)), snd (analog_note_off s id)).
Proof.
  unfold analog_note_off. change (analogT (set_actionT l s)) with (analogT s).
  destruct (get aid_eqb id (analogT s)) as [[n ch]|]; reflexivity.
Qed.

Lemma handle_cc_lift sa s l :
  handle_cc (set_actionT l s) sa = (set_actionT l (fst (handle_cc s sa)), snd (handle_cc s sa)).
Proof.
  unfold handle_cc. destruct (a_bidi (sa_an sa)); [|reflexivity].
  destruct (sa_neg sa).
  - change (cc_zeroed (set_actionT l s) (a_cc (sa_an sa))) with (cc_zeroed s (a_cc (sa_an sa))).
    destruct (cc_zeroed s (a_cc (sa_an sa))); reflexivity.
  - change (cc_zeroed (set_actionT l s) (a_ccneg (sa_an sa))) with (cc_zeroed s (a_ccneg (sa_an sa))).
    destruct (cc_zeroed s (a_ccneg (sa_an sa))); reflexivity.
Qed.

Ltac lift_analog :=
  match goal with
  | |- context [analog_note_on (set_actionT ?l ?s) ?i ?n ?o] =>
      rewrite (analog_note_on_lift i n o s l); destruct (analog_note_on s i n o) as [? ?]; cbn [fst snd]
  | |- context [analog_note_off (set_actionT ?l ?s) ?i] =>
      rewrite (analog_note_off_lift i s l); destruct (analog_note_off s i) as [? ?]; cbn [fst snd]
  end.

Lemma handle_keysim_lift sa s l :
  handle_keysim (set_actionT l s) sa = (set_actionT l (fst (handle_keysim s sa)), snd (handle_keysim s sa)).
Proof.
  unfold handle_keysim. destruct (sa_zone sa); [| | |reflexivity].
  - change (analogT (set_actionT l s)) with (analogT s).
    destruct (get aid_eqb (sa_code sa, true) (analogT s)); [|destruct (a_bidi (sa_an sa))];
      repeat lift_analog; reflexivity.
  - repeat lift_analog; reflexivity.
  - change (analogT (set_actionT l s)) with (analogT s).
    destruct (get aid_eqb (sa_code sa, false) (analogT s)); repeat lift_analog; reflexivity.
Qed.

(* ------------------------------------------------------------------ checkDoubleActions: the length test is redundant *)
Lemma pair_complete_length l pk : pair_complete l pk = true -> (2 <= length l)%nat.
Proof.
  intro H. destruct pk; cbn [pair_complete] in H; apply andb_true_iff in H; destruct H as [H1 H2];
    [apply (two_members_length _ MappingUp MappingDown)|apply (two_members_length _ OctaveUp OctaveDown)
    |apply (two_members_length _ SemitoneUp SemitoneDown)|apply (two_members_length _ ChannelUp ChannelDown)];
    auto; discriminate.
Qed.

Definition check_double_nolen (s : state) : option state :=
  if has_action s MappingUp && has_action s MappingDown then Some (set_mapidx 0%nat s)
  else if has_action s OctaveUp && has_action s OctaveDown then Some (set_octave 0%Z s)
  else if has_action s SemitoneUp && has_action s SemitoneDown then Some (set_semitone 0%Z s)
  else if has_action s ChannelUp && has_action s ChannelDown then Some (set_channel 0 s)
  else None.

Lemma check_double_length_redundant s : check_double s = check_double_nolen s.
Proof.
  unfold check_double, check_double_nolen. destruct (Nat.ltb 1 (length (actionT s))) eqn:L; [reflexivity|].
  apply Nat.ltb_ge in L.
  assert (P : forall a b, a <> b -> has_action s a && has_action s b = false).
  { intros a b Hab. destruct (has_action s a && has_action s b) eqn:E; [|reflexivity].
    apply andb_true_iff in E. destruct E as [E1 E2]. pose proof (two_members_length _ a b E1 E2 Hab). lia. }
  rewrite !P by discriminate. reflexivity.
Qed.

Lemma check_double_sim s s' :
  panic_eq s s' ->
  match check_double s, check_double s' with
  | Some t, Some t' => panic_eq t t'
  | None, None => True
  | _, _ => False
  end.
Proof.
  intro H. rewrite !check_double_length_redundant. unfold check_double_nolen.
  assert (M : forall a, a <> Panic -> has_action s' a = has_action s a)
    by (intros a Ha; symmetry; apply panic_eq_has_action; assumption).
  rewrite !M by discriminate.
  destruct (has_action s MappingUp && has_action s MappingDown).
  { apply (panic_eq_lift1 (set_mapidx 0%nat)); [intros x l; reflexivity|exact H]. }
  destruct (has_action s OctaveUp && has_action s OctaveDown).
  { apply (panic_eq_lift1 (set_octave 0%Z)); [intros x l; reflexivity|exact H]. }
  destruct (has_action s SemitoneUp && has_action s SemitoneDown).
  { apply (panic_eq_lift1 (set_semitone 0%Z)); [intros x l; reflexivity|exact H]. }
  destruct (has_action s ChannelUp && has_action s ChannelDown).
  { apply (panic_eq_lift1 (set_channel 0)); [intros x l; reflexivity|exact H]. }
  exact I.
Qed.

Lemma invoke_press_sim c a s s' : panic_eq s s' -> sim_out (invoke_press c a s) (invoke_press c a s').
Proof. apply (panic_eq_lift (invoke_press c a)). intros x l. apply invoke_press_lift. Qed.

Lemma invoke_release_sim a s s' : panic_eq s s' -> panic_eq (invoke_release a s) (invoke_release a s').
Proof. apply panic_eq_lift1. apply invoke_release_lift. Qed.

(* ------------------------------------------------------------------ one event *)
Lemma sim_out_emit (p p' : state * list msg) :
  sim_out p p' -> sim_out (let '(s2, m) := p in (s2, emit m)) (let '(s2, m) := p' in (s2, emit m)).
Proof. destruct p as [s2 m], p' as [s2' m']. unfold sim_out. cbn [fst snd]. intros [-> H]. split; [reflexivity|exact H]. Qed.

Lemma handle_key_sim c s s' sub code val :
  panic_eq s s' -> sim_out (handle_key c s sub code val) (handle_key c s' sub code val).
Proof.
  intro H. unfold handle_key. cbv zeta.
  assert (Hfk : find_key c s' sub code = find_key c s sub code).
  { unfold find_key, cur_mapping. destruct H as (_&_&_&_&Hm&_). rewrite Hm. reflexivity. }
  rewrite Hfk.
  assert (Hk : keyT s' = keyT s) by apply H. rewrite Hk.
  set (s1 := if (val =? 1)%Z then set_keyT (sadd N.eqb code (keyT s)) s else set_keyT (srem N.eqb code (keyT s)) s).
  set (s1' := if (val =? 1)%Z then set_keyT (sadd N.eqb code (keyT s)) s' else set_keyT (srem N.eqb code (keyT s)) s').
  assert (H1 : panic_eq s1 s1').
  { subst s1 s1'. destruct (val =? 1)%Z.
    - apply (panic_eq_lift1 (set_keyT (sadd N.eqb code (keyT s)))); [intros x l; reflexivity|exact H].
    - apply (panic_eq_lift1 (set_keyT (srem N.eqb code (keyT s)))); [intros x l; reflexivity|exact H]. }
  clearbody s1 s1'.
  assert (Hk1 : keyT s1' = keyT s1) by apply H1. rewrite Hk1.
  destruct ((val =? 1)%Z && exit_complete c (keyT s1)); [split; [reflexivity|exact H1]|].
  destruct (find_action c code) as [a|].
  - destruct (val =? 1)%Z.
    + pose proof (track_sim a s1 s1' H1) as H2. unfold track_action in H2.
      set (s2 := set_actionT (sadd action_eqb a (actionT s1)) s1) in *.
      set (s2' := set_actionT (sadd action_eqb a (actionT s1')) s1') in *. clearbody s2 s2'.
      pose proof (check_double_sim s2 s2' H2) as CD.
      destruct (check_double s2) as [s3|], (check_double s2') as [s3'|]; try contradiction.
      * split; [reflexivity|exact CD].
      * apply sim_out_emit. apply invoke_press_sim. exact H2.
    + destruct (val =? 0)%Z.
      * split; [reflexivity|]. cbn [fst].
        apply (untrack_sim a (invoke_release a s1) (invoke_release a s1')). apply invoke_release_sim. exact H1.
      * split; [reflexivity|exact H1].
  - assert (ON : sim_out (let '(s2, m) := note_on_key c s1 sub code in (s2, emit m))
                         (let '(s2, m) := note_on_key c s1' sub code in (s2, emit m))).
    { apply sim_out_emit. apply (panic_eq_lift (fun x => note_on_key c x sub code)); [|exact H1].
      intros x l. apply note_on_key_lift. }
    assert (OFF : sim_out (let '(s2, m) := note_off_key c s1 code in (s2, emit m))
                          (let '(s2, m) := note_off_key c s1' code in (s2, emit m))).
    { apply sim_out_emit. apply (panic_eq_lift (fun x => note_off_key c x code)); [|exact H1].
      intros x l. apply note_off_key_lift. }
    destruct (find_key c s sub code).
    + destruct (val =? 1)%Z; [exact ON|]. destruct (val =? 0)%Z; [exact OFF|]. split; [reflexivity|exact H1].
    + destruct (val =? 0)%Z; [exact OFF|]. split; [reflexivity|exact H1].
Qed.

Lemma handle_actionsim_sim c s s' sa :
  panic_eq s s' -> sim_out (handle_actionsim c s sa) (handle_actionsim c s' sa).
Proof.
  intro H. unfold handle_actionsim.
  pose proof (check_double_sim s s' H) as CD.
  destruct (check_double s) as [t|], (check_double s') as [t'|]; try contradiction.
  { split; [reflexivity|exact CD]. }
  destruct (sa_zone sa).
  - pose proof (invoke_press_sim c (a_actneg (sa_an sa)) s s' H) as [P1 P2].
    destruct (invoke_press c (a_actneg (sa_an sa)) s) as [s1 m], (invoke_press c (a_actneg (sa_an sa)) s') as [s1' m'].
    cbn [fst snd] in P1, P2. split; [exact P1|]. cbn [fst].
    apply untrack_sim, invoke_release_sim, track_sim. exact P2.
  - split; [reflexivity|]. cbn [fst].
    apply untrack_sim, untrack_sim, invoke_release_sim, invoke_release_sim. exact H.
  - pose proof (invoke_press_sim c (a_act (sa_an sa)) s s' H) as [P1 P2].
    destruct (invoke_press c (a_act (sa_an sa)) s) as [s1 m], (invoke_press c (a_act (sa_an sa)) s') as [s1' m'].
    cbn [fst snd] in P1, P2. split; [exact P1|]. cbn [fst].
    apply invoke_release_sim, untrack_sim, track_sim. exact P2.
  - split; [reflexivity|exact H].
Qed.

Lemma handle_sample_sim c s s' sa :
  panic_eq s s' -> sim_out (handle_sample c s sa) (handle_sample c s' sa).
Proof.
  intro H. unfold handle_sample.
  assert (Hl : learning s' = learning s) by apply H. rewrite Hl.
  destruct (learning s && negb (sa_gate sa)); [split; [reflexivity|exact H]|].
  apply sim_out_emit.
  destruct (a_type (sa_an sa)).
  - apply (panic_eq_lift (fun x => handle_cc x sa)); [|exact H]. intros x l. apply handle_cc_lift.
  - assert (Hc : chan_of s' (a_off (sa_an sa)) = chan_of s (a_off (sa_an sa))).
    { unfold chan_of. destruct H as (_&_&Hch&_). rewrite Hch. reflexivity. }
    rewrite Hc. split; [reflexivity|exact H].
  - apply (panic_eq_lift (fun x => handle_keysim x sa)); [|exact H]. intros x l. apply handle_keysim_lift.
  - apply handle_actionsim_sim. exact H.
  - split; [reflexivity|exact H].
Qed.

(* every event: same output, related successor states - no side condition, also when an axis tracks Panic itself *)
Lemma step_panic_eq c s s' e :
  panic_eq s s' -> snd (step c s e) = snd (step c s' e) /\ panic_eq (fst (step c s e)) (fst (step c s' e)).
Proof.
  intro H. destruct e as [sub code val|sa|]; cbn [step].
  - destruct (val =? 2)%Z; [split; [reflexivity|exact H]|]. apply handle_key_sim. exact H.
  - apply handle_sample_sim. exact H.
  - split; [reflexivity|exact H].
Qed.

Lemma run_panic_eq c h : forall s s',
  panic_eq s s' -> snd (run_from c s h) = snd (run_from c s' h) /\ panic_eq (fst (run_from c s h)) (fst (run_from c s' h)).
Proof.
  induction h as [|e r IH]; intros s s' H; cbn [run_from]; [split; [reflexivity|exact H]|].
  pose proof (step_panic_eq c s s' e H) as [S1 S2].
  destruct (step c s e) as [s1 o], (step c s' e) as [s1' o']. cbn [fst snd] in S1, S2.
  pose proof (IH s1 s1' S2) as [R1 R2].
  destruct (run_from c s1 r) as [s2 os], (run_from c s1' r) as [s2' os']. cbn [fst snd] in *.
  split; [congruence|exact R2].
Qed.

(* ------------------------------------------------------------------ the panic key *)
Lemma panic_release c s sub k :
  find_action c k = Some Panic ->
  step c s (EKey sub k 0) = (set_actionT (srem action_eqb Panic (actionT s)) (set_keyT (srem N.eqb k (keyT s)) s), silent).
Proof.
  intro Ha. cbn [step]. change (0 =? 2)%Z with false. cbv iota. unfold handle_key.
  change (0 =? 1)%Z with false. change (0 =? 0)%Z with true. cbv iota. cbn [andb]. rewrite Ha.
  cbn [invoke_release keyT actionT set_keyT set_actionT]. reflexivity.
Qed.

(* press + release of a triggered panic key: the burst, then silence, and a state related to the one before *)
Lemma panic_roundtrip_general c s sub sub' k :
  panic_triggers c s k -> ~ In k (keyT s) ->
  let s2 := fst (step c s (EKey sub k 1)) in
  snd (step c s2 (EKey sub' k 0)) = silent /\ panic_eq (fst (step c s2 (EKey sub' k 0))) s.
Proof.
  intros Ht Hk s2. subst s2. rewrite (panic_press c s sub k Ht). cbn [fst].
  destruct Ht as (Ha&_&_). rewrite (panic_release c _ sub' k Ha). cbn [fst snd]. split; [reflexivity|].
  cbn [keyT actionT set_keyT set_actionT].
  assert (S1 : srem N.eqb k (sadd N.eqb k (keyT s)) = keyT s).
  { unfold sadd. rewrite (srem_notin N.eqb Neqb_spec k (keyT s) Hk). unfold srem. cbn [filter].
    rewrite (proj2 (Neqb_spec k k) eq_refl). cbn [negb]. apply (srem_notin N.eqb Neqb_spec k (keyT s) Hk). }
  rewrite S1. unfold panic_eq.
  cbn [octave semitone channel velocity mapidx learning noteT analogT counter actionT ccZ keyT set_actionT].
  repeat split. unfold sadd. rewrite srem_cons_same, !srem_idem. reflexivity.
Qed.

(* transparency in general: for every history h1 and continuation h2, inserting a triggered press+release of a panic key
   adds exactly the burst and one silent step to the output, changes no later output, and the final states agree on
   everything except whether Panic is in the action tracker *)
Theorem panic_transparent_general c h1 sub sub' k h2 :
  let s1 := fst (run c h1) in
  panic_triggers c s1 k -> ~ In k (keys_down h1) ->
  snd (run c (h1 ++ EKey sub k 1 :: EKey sub' k 0 :: h2)) =
    snd (run c h1) ++ emit (panic_burst (channel s1)) :: silent :: snd (run_from c s1 h2)
  /\ snd (run c (h1 ++ h2)) = snd (run c h1) ++ snd (run_from c s1 h2)
  /\ panic_eq (fst (run c (h1 ++ EKey sub k 1 :: EKey sub' k 0 :: h2))) (fst (run c (h1 ++ h2))).
Proof.
  intros s1 Ht Hk. rewrite <- (run_keyT c) in Hk. fold s1 in Hk.
  pose proof (panic_press c s1 sub k Ht) as E1.
  pose proof (panic_roundtrip_general c s1 sub sub' k Ht Hk) as E2. cbv zeta in E2.
  unfold run in *. rewrite !run_from_app. destruct (run_from c (init c) h1) as [sa oa] eqn:Er.
  cbn [fst] in s1. subst s1. cbn [run_from].
  destruct (step c sa (EKey sub k 1)) as [sb ob]. cbn [fst] in E2. injection E1 as E1a E1b. subst ob.
  destruct (step c sb (EKey sub' k 0)) as [sc oc]. cbn [fst snd] in E2. destruct E2 as [E2a E2b]. subst oc.
  pose proof (run_panic_eq c h2 sc sa E2b) as [R1 R2].
  destruct (run_from c sc h2) as [sd od], (run_from c sa h2) as [sd' od']. cbn [fst snd] in *.
  split; [rewrite R1; reflexivity|]. split; [reflexivity|exact R2].
Qed.

(* what related states agree on: every field but the action tracker, membership of every action but Panic, and
   therefore the pair test *)
Lemma panic_eq_observables s s' :
  panic_eq s s' ->
  octave s = octave s' /\ semitone s = semitone s' /\ channel s = channel s' /\ velocity s = velocity s' /\
  mapidx s = mapidx s' /\ learning s = learning s' /\ noteT s = noteT s' /\ analogT s = analogT s' /\
  counter s = counter s' /\ ccZ s = ccZ s' /\ keyT s = keyT s' /\
  (forall a, a <> Panic -> has_action s a = has_action s' a) /\
  (forall pk, pair_complete (actionT s) pk = pair_complete (actionT s') pk).
Proof.
  intro H. pose proof H as (?&?&?&?&?&?&?&?&?&?&?&Ha). repeat split; try congruence.
  - intros a Hne. apply panic_eq_has_action; assumption.
  - intro pk. destruct pk; cbn [pair_complete];
      repeat match goal with |- context [mem action_eqb ?a (actionT s)] =>
               rewrite (aeq_mem a (actionT s) (actionT s') ltac:(discriminate) Ha) end; reflexivity.
Qed.

Corollary panic_transparent_observables c h1 sub sub' k h2 :
  let s1 := fst (run c h1) in
  panic_triggers c s1 k -> ~ In k (keys_down h1) ->
  let s := fst (run c (h1 ++ EKey sub k 1 :: EKey sub' k 0 :: h2)) in
  let s' := fst (run c (h1 ++ h2)) in
  octave s = octave s' /\ semitone s = semitone s' /\ channel s = channel s' /\ velocity s = velocity s' /\
  mapidx s = mapidx s' /\ learning s = learning s' /\ noteT s = noteT s' /\ analogT s = analogT s' /\
  counter s = counter s' /\ ccZ s = ccZ s' /\ keyT s = keyT s' /\
  (forall a, a <> Panic -> has_action s a = has_action s' a) /\
  (forall pk, pair_complete (actionT s) pk = pair_complete (actionT s') pk).
Proof.
  intros s1 Ht Hk s s'. apply panic_eq_observables.
  exact (proj2 (proj2 (panic_transparent_general c h1 sub sub' k h2 Ht Hk))).
Qed.

(* the disconnect clean-up of related states sends the same messages *)
Lemma cleanup_keys_lift c codes : forall s l,
  cleanup_keys c (set_actionT l s) codes = (set_actionT l (fst (cleanup_keys c s codes)), snd (cleanup_keys c s codes)).
Proof.
  induction codes as [|k r IH]; intros s l; cbn [cleanup_keys]; [reflexivity|].
  rewrite note_off_key_lift. destruct (note_off_key c s k) as [s1 m1]. cbn [fst snd].
  rewrite IH. destruct (cleanup_keys c s1 r) as [s2 m2]. reflexivity.
Qed.

Lemma cleanup_analog_lift ids : forall s l,
  cleanup_analog (set_actionT l s) ids = (set_actionT l (fst (cleanup_analog s ids)), snd (cleanup_analog s ids)).
Proof.
  induction ids as [|i r IH]; intros s l; cbn [cleanup_analog]; [reflexivity|].
  rewrite analog_note_off_lift. destruct (analog_note_off s i) as [s1 m1]. cbn [fst snd].
  rewrite IH. destruct (cleanup_analog s1 r) as [s2 m2]. reflexivity.
Qed.

Lemma cleanup_panic_eq c s s' :
  panic_eq s s' -> snd (cleanup c s) = snd (cleanup c s') /\ panic_eq (fst (cleanup c s)) (fst (cleanup c s')).
Proof.
  apply (panic_eq_lift (cleanup c)). intros x l. unfold cleanup.
  change (noteT (set_actionT l x)) with (noteT x). rewrite cleanup_keys_lift.
  destruct (cleanup_keys c x (keys (noteT x))) as [s1 m1]. cbn [fst snd].
  change (analogT (set_actionT l s1)) with (analogT s1). rewrite cleanup_analog_lift.
  destruct (cleanup_analog s1 (keys (analogT s1))) as [s2 m2]. reflexivity.
Qed.

(* ------------------------------------------------------------------ the relation is needed *)
(* two keys mapped to Panic; the first is held while the second is pressed and released: the hypotheses hold, and the
   final action trackers differ, so the final states are not equal (the statement of [panic_transparent] without its
   third hypothesis fails here) *)
Example two_panic_keys :
  let c := {| mappings := [{| m_name := 0; m_midi := [((0, 30), {| k_note := 60; k_off := 0 |})]; m_analog := [] |}];
              actions := [(1, Panic); (2, Panic)]; exitseq := []; cmode_of := CNoRepeat;
              d_octave := 0; d_semitone := 0; d_channel := 3; d_mapping := 0; d_velocity := 64 |} in
  let h1 := [EKey 0 1 1] in
  let h2 := [EKey 0 30 1] in
  let s1 := fst (run c h1) in
  panic_triggers c s1 2 /\ ~ In 2 (keys_down h1) /\ In Panic (actionT s1) /\
  actionT (fst (run c (h1 ++ EKey 0 2 1 :: EKey 0 2 0 :: h2))) = [] /\
  actionT (fst (run c (h1 ++ h2))) = [Panic] /\
  fst (run c (h1 ++ EKey 0 2 1 :: EKey 0 2 0 :: h2)) <> fst (run c (h1 ++ h2)) /\
  map (fun o => length (midi o)) (snd (run c (h1 ++ EKey 0 2 1 :: EKey 0 2 0 :: h2))) = [129; 129; 0; 1]%nat.
Proof.
  cbv zeta. split; [split; [reflexivity|split; [reflexivity|intros []; reflexivity]]|].
  split; [vm_compute; intros [H|[]]; discriminate|].
  split; [vm_compute; left; reflexivity|].
  split; [vm_compute; reflexivity|].
  split; [vm_compute; reflexivity|].
  split; [|vm_compute; reflexivity].
  intro E. apply (f_equal actionT) in E. vm_compute in E. discriminate.
Qed.
