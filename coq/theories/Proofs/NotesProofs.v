From Coq Require Import List NArith ZArith Bool Lia.
From HIDI Require Import Model.Notes.
Import ListNotations.
Open Scope N_scope.

Lemma in_nrange : forall n lo b, lo <= b -> b < lo + N.of_nat n -> In b (nrange lo n).
Proof.
  induction n as [|n IH]; intros lo b Hlo Hhi.
  - simpl in Hhi. lia.
  - cbn [nrange]. destruct (N.eq_dec lo b) as [->|Hne]; [left; reflexivity|].
    right. apply IH; lia.
Qed.

Lemma is_letter_in : forall b, is_letter b = true -> In b letters.
Proof.
  intros b H. unfold is_letter, is_upper, is_lower in H. unfold letters.
  apply in_or_app.
  apply orb_true_iff in H. destruct H as [H|H]; apply andb_true_iff in H; destruct H as [H1 H2];
    apply N.leb_le in H1; apply N.leb_le in H2; [left|right]; apply in_nrange; simpl; lia.
Qed.

Lemma is_digit_in : forall b, is_digit b = true -> In b digits.
Proof.
  intros b H. unfold is_digit in H. apply andb_true_iff in H. destruct H as [H1 H2].
  apply N.leb_le in H1; apply N.leb_le in H2. apply in_nrange; simpl; lia.
Qed.

Lemma in_bools : forall b : bool, In b [false; true].
Proof. destruct b; simpl; auto. Qed.

Lemma in_candidates : forall l sh mi d,
  is_letter l = true -> is_digit d = true -> In (l, sh, mi, d) candidates.
Proof.
  intros l sh mi d Hl Hd. unfold candidates.
  apply in_flat_map. exists l. split; [apply is_letter_in; exact Hl|].
  apply in_flat_map. exists sh. split; [apply in_bools|].
  apply in_flat_map. exists mi. split; [apply in_bools|].
  apply in_map_iff. exists d. split; [reflexivity|apply is_digit_in; exact Hd].
Qed.

(* the regular expression matches exactly the renderings of candidate shapes *)
Lemma parse_shape_sound : forall s sh,
  parse_shape s = Some sh -> s = render sh /\ In sh candidates.
Proof.
  intros s sh H.
  destruct s as [|l [|x [|y [|z [|w s]]]]]; cbn [parse_shape] in H; try discriminate.
  - (* [l; x] *)
    destruct (is_letter l) eqn:Hl; [|discriminate].
    destruct (is_digit x) eqn:Hd; [|discriminate].
    cbn in H. injection H as <-. split; [reflexivity|apply in_candidates; assumption].
  - (* [l; x; y] *)
    destruct (is_letter l) eqn:Hl; [|discriminate].
    destruct (is_digit y) eqn:Hd; [|discriminate].
    cbn [andb] in H.
    destruct (x =? ch_sharp) eqn:Hx.
    + apply N.eqb_eq in Hx. subst x. injection H as <-.
      split; [reflexivity|apply in_candidates; assumption].
    + destruct (x =? ch_minus) eqn:Hm; [|discriminate].
      apply N.eqb_eq in Hm. subst x. injection H as <-.
      split; [reflexivity|apply in_candidates; assumption].
  - (* [l; x; y; z] *)
    destruct (is_letter l) eqn:Hl; [|discriminate].
    destruct (is_digit z) eqn:Hd; [|discriminate].
    cbn [andb] in H.
    destruct (x =? ch_sharp) eqn:Hx; [|discriminate].
    destruct (y =? ch_minus) eqn:Hy; [|discriminate].
    apply N.eqb_eq in Hx, Hy. subst x y. injection H as <-.
    split; [reflexivity|apply in_candidates; assumption].
Qed.

Lemma parse_shape_render : forall sh, In sh candidates -> parse_shape (render sh) = Some sh.
Proof.
  assert (H : forallb (fun sh => match parse_shape (render sh) with
                                 | Some sh' => let '(l, a, b, d) := sh in let '(l', a', b', d') := sh' in
                                               (l =? l') && Bool.eqb a a' && Bool.eqb b b' && (d =? d')
                                 | None => false end) candidates = true) by (vm_compute; reflexivity).
  intros sh Hin. rewrite forallb_forall in H. specialize (H sh Hin).
  destruct (parse_shape (render sh)) as [[[[l' a'] b'] d']|]; [|discriminate].
  destruct sh as [[[l a] b] d].
  repeat (apply andb_true_iff in H; destruct H as [H ?]).
  apply N.eqb_eq in H. subst.
  repeat match goal with
         | Hx : (_ =? _) = true |- _ => apply N.eqb_eq in Hx
         | Hx : Bool.eqb _ _ = true |- _ => apply Bool.eqb_prop in Hx
         end.
  subst. reflexivity.
Qed.

(* lifting a finite sweep over the candidate shapes to all byte strings *)
Lemma forall_candidates : forall P : shape -> bool,
  forallb P candidates = true ->
  forall s sh, parse_shape s = Some sh -> P sh = true.
Proof.
  intros P H s sh Hs. rewrite forallb_forall in H. apply H.
  apply (parse_shape_sound s sh Hs).
Qed.

Definition opt_eqb (a b : option N) : bool :=
  match a, b with Some x, Some y => x =? y | None, None => true | _, _ => false end.
Lemma opt_eqb_eq a b : opt_eqb a b = true -> a = b.
Proof. destruct a, b; cbn; try discriminate; auto. intro H; apply N.eqb_eq in H; congruence. Qed.

Fixpoint list_eqb (a b : list N) : bool :=
  match a, b with
  | [], [] => true
  | x :: a', y :: b' => (x =? y) && list_eqb a' b'
  | _, _ => false
  end.
Lemma list_eqb_eq : forall a b, list_eqb a b = true -> a = b.
Proof.
  induction a as [|x a IH]; destruct b as [|y b]; cbn; try discriminate; auto.
  intro H. apply andb_true_iff in H. destruct H as [H1 H2]. apply N.eqb_eq in H1. f_equal; auto.
Qed.

(* 1. the uint8 implementation agrees with the independent specification on every string *)
Lemma string_to_note_spec : forall s, string_to_note s = spec s.
Proof.
  intro s. destruct (parse_shape s) as [sh|] eqn:Hs.
  - pose proof (parse_shape_sound s sh Hs) as [-> _].
    apply opt_eqb_eq.
    apply (forall_candidates (fun sh => opt_eqb (string_to_note (render sh)) (spec (render sh)))
             ltac:(vm_compute; reflexivity) (render sh) sh Hs).
  - unfold string_to_note, string_to_note_gen, spec. rewrite Hs. reflexivity.
Qed.

(* 2. the accepted language is exactly the explicit table *)
Lemma accepted_iff : forall strict s n,
  string_to_note_gen strict s = Some n <-> In (s, n) (accepted_gen strict).
Proof.
  intros strict s n. unfold accepted_gen. split.
  - intro H. destruct (parse_shape s) as [sh|] eqn:Hs.
    + pose proof (parse_shape_sound s sh Hs) as [-> Hin].
      apply in_flat_map. exists sh. split; [exact Hin|]. rewrite H. left. reflexivity.
    + unfold string_to_note_gen in H. rewrite Hs in H. discriminate.
  - intro H. apply in_flat_map in H. destruct H as [sh [Hin H]].
    destruct (string_to_note_gen strict (render sh)) as [m|] eqn:E; [|contradiction].
    destruct H as [H|[]]. injection H as <- <-. exact E.
Qed.

Lemma roundtrip : forall n, n < 128 -> string_to_note (name n) = Some n.
Proof.
  assert (H : forallb (fun n => opt_eqb (string_to_note (name n)) (Some n)) (nrange 0 128) = true)
    by (vm_compute; reflexivity).
  intros n Hn. rewrite forallb_forall in H. apply opt_eqb_eq. apply H.
  apply in_nrange; simpl; lia.
Qed.

Lemma inverse : forall s n, string_to_note s = Some n -> n < 128 /\ canon s = name n.
Proof.
  intros s n H. destruct (parse_shape s) as [sh|] eqn:Hs.
  - pose proof (parse_shape_sound s sh Hs) as [-> _].
    pose proof (forall_candidates
                  (fun sh => match string_to_note (render sh) with
                             | Some n => (n <? 128) && list_eqb (canon (render sh)) (name n)
                             | None => true end)) as F.
    specialize (F ltac:(vm_compute; reflexivity) _ _ Hs). cbv beta in F. rewrite H in F.
    apply andb_true_iff in F. destruct F as [F1 F2]. apply N.ltb_lt in F1.
    split; [exact F1|apply list_eqb_eq; exact F2].
  - unfold string_to_note, string_to_note_gen in H. rewrite Hs in H. discriminate.
Qed.

Lemma accepted_count : length accepted = 280%nat.
Proof. vm_compute. reflexivity. Qed.

Lemma accepted_nodup : NoDup (map fst accepted).
Proof.
  assert (H : forall l : list (list N),
             (fix nd (l : list (list N)) : bool :=
                match l with [] => true | x :: r => negb (existsb (list_eqb x) r) && nd r end) l = true ->
             NoDup l).
  { induction l as [|x r IH]; intro H; constructor.
    - apply andb_true_iff in H. destruct H as [H _]. apply negb_true_iff in H.
      intro Hin. assert (existsb (list_eqb x) r = true); [|congruence].
      apply existsb_exists. exists x. split; [exact Hin|].
      clear. induction x as [|a x IHx]; cbn; [reflexivity|]. rewrite N.eqb_refl. exact IHx.
    - apply IH. apply andb_true_iff in H. destruct H as [_ H]. exact H. }
  apply H. vm_compute. reflexivity.
Qed.

(* every value 0..127 has exactly its upper/lower-case names (and the "-0" forms) in the table *)
Lemma accepted_values : forallb (fun n => (2 <=? N.of_nat (length (filter (fun p => snd p =? n) accepted)))%N)
                                (nrange 0 128) = true.
Proof. vm_compute. reflexivity. Qed.

(* The unchecked table lookup of the original code (D7): not-a-note strings become C. *)
Lemma unchecked_lookup_refuted :
  string_to_note_gen false [72; 49] (* "H1" *) = Some 36 /\
  string_to_note_gen false [69; 35; 49] (* "E#1" *) = Some 36 /\
  spec [72; 49] = None /\ spec [69; 35; 49] = None.
Proof. vm_compute. repeat split. Qed.
