(* Extraction of the device-history monitors to OCaml for the high-volume SEARCH stage of the thorough tier
   ("extracted-model soak", lib/soak.py, FRAMEWORK.md last section).

   NOT part of the development (not listed in _CoqProject, outside theories/): build.sh copies this file into _build/ and
   runs `coqc -Q ../../theories HIDI Extract.v` there.  Nothing extracted is ever trusted for a verdict: every case the
   extracted monitors flag is re-evaluated by the kernel's vm_compute on the very same Gallina terms before it is reported.

   Extract directives in effect = exactly those of ExtrOcamlBasic (nothing else is required or declared here):
     Extract Inductive bool    => bool   [ true false ]
     Extract Inductive option  => option [ Some None ]
     Extract Inductive unit    => unit   [ "()" ]
     Extract Inductive list    => list   [ "[]" "( :: )" ]
     Extract Inductive prod    => "( * )" [ "" ]
     Extract Inductive sumbool => bool   [ true false ]
     Extract Inductive sumor   => option [ Some None ]
     Extract Inlined Constant andb => "(&&)"
     Extract Inlined Constant orb  => "(||)"
   nat, positive, N, Z stay the Coq inductive types (O/S, XI/XO/XH, N0/Npos, Z0/Zpos/Zneg): no ExtrOcamlNatInt/ZInt/..., so
   no machine-integer overflow can enter the extracted arithmetic. *)
Require Import ExtrOcamlBasic.
From HIDI Require Import Model.Device Run.DeviceRun.

Extraction "model.ml"
  (* C01 *) c01_failures c01_mismatch
  (* C02 *) c02_failures notes_mismatch
  (* C03 *) c03_failures c03_has_collision
  (* C04 *) c04_failures c04_mismatch
  (* C05 *) c05_failures c05_mismatch
  (* C13 *) c13_failures c13_mismatch c13_has_trigger
  (* C14 *) c14_failures c14_mismatch c14_fired.
