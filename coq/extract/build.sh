#!/bin/bash
# Builds coq/extract/_build/soak (driver of the extracted device-history monitors).  Everything produced stays in _build/.
# Rebuilds only what is older than its sources: the extraction when Extract.v or the compiled development it reads
# (theories/Run/DeviceRun.vo, theories/Model/Device.vo) changed, the binary when model.ml or driver.ml changed.
# The coqc step runs under the development's make lock (never while `make` is rewriting .vo files).
set -euo pipefail
HERE="$(cd "$(dirname "$0")" && pwd)"
VERIF="$(cd "$HERE/../.." && pwd)"
B="$HERE/_build"
TH="$HERE/../theories"
mkdir -p "$B" "$VERIF/.work"

# one build at a time (several thorough checks may start together)
exec 9>"$B/.build.lock"
flock 9

newer() {  # newer <target> <source>...: true when the target is missing or older than one of the sources
  local t="$1"; shift
  [ -e "$t" ] || return 0
  local s
  for s in "$@"; do
    [ -e "$s" ] || { echo "build.sh: missing $s (build the Coq development first: make -C $VERIF/coq)" >&2; exit 3; }
    [ "$s" -nt "$t" ] && return 0
  done
  return 1
}

if newer "$B/model.ml" "$HERE/Extract.v" "$TH/Run/DeviceRun.vo" "$TH/Model/Device.vo" || [ ! -e "$B/model.mli" ]; then
  cp "$HERE/Extract.v" "$B/Extract.v"
  rm -f "$B/model.ml" "$B/model.mli"
  # `Extraction "model.ml"` writes into the current directory (8.16 has no `Set Extraction Output Directory`)
  (cd "$B" && flock "$VERIF/.work/make.lock" coqc -q -Q ../../theories HIDI Extract.v >"$B/extract.log" 2>&1) \
    || { cat "$B/extract.log" >&2; rm -f "$B/model.ml" "$B/model.mli"; exit 1; }
  [ -s "$B/model.ml" ] && [ -s "$B/model.mli" ] || { echo "build.sh: extraction produced no model.ml" >&2; exit 1; }
fi

if newer "$B/soak" "$B/model.ml" "$B/model.mli" "$HERE/driver.ml" "$HERE/build.sh"; then
  cp "$HERE/driver.ml" "$B/driver.ml"
  # -O3 is accepted (and ignored) by a non-flambda ocamlopt; warnings of the generated model.ml are not interesting
  (cd "$B" && ocamlfind ocamlopt -O3 -inline 100 -w -a -package str model.mli model.ml driver.ml -o soak.tmp >"$B/ocaml.log" 2>&1) \
    || { cat "$B/ocaml.log" >&2; rm -f "$B/soak.tmp"; exit 1; }
  mv "$B/soak.tmp" "$B/soak"
fi
echo "$B/soak"
