(* Driver of the extracted device-history monitors (search stage only; see FRAMEWORK.md, "Extracted-model soak").

   usage: soak <C01|C02|C03|C04|C05|C13|C14> <cases.txt | ->

   Input: one case per line, blank-separated decimal integers ('#' lines are comments), written by
   lib/devrun.py:emit_kcase_text - the same content devrun.emit_kcase writes as a Coq term:

     case    := INDEX config events obs msgs                      (the last msgs = clean-up messages)
     config  := NM mapping^NM  NA (code action)^NA  NX code^NX  cmode octave semitone channel mapping velocity
     mapping := name  NK (sub code note off)^NK
                      NAN (sub code atype cc ccneg note noteneg off offneg act actneg flip bidi dzc)^NAN
     events  := NE (sub code val)^NE                              (EKey only, like emit_key_event)
     obs     := NS (msgs sigs octave semitone channel notes map)^NS
     msgs    := N (LEN byte^LEN)^N
     action  := 0..14 = MappingUp MappingDown AMapping OctaveUp OctaveDown SemitoneUp SemitoneDown ChannelUp ChannelDown
                        AChannel Multinote Panic Learning Exit ANone
     cmode   := 0..3  = COff CNoRepeat CInterrupt CRetrigger
     atype   := 0..4  = ACC APitchBend AKeySim AActionSim AUnknown

   Output: one line per case:  INDEX PROPERTY F:<failing step indices, comma separated, or -> M:<mismatch index or -> N:<0|1>

   OCaml ints are converted to the extracted Coq numbers (nat = O/S, positive = XI/XO/XH, N, Z) by the helpers below;
   the monitors themselves compute on those inductive types only. *)
open Model

let fail fmt = Printf.ksprintf (fun s -> prerr_endline ("soak driver: " ^ s); exit 2) fmt

(* ---- numbers *)
let rec pos_of_int (i : int) : positive =
  if i = 1 then XH else if i land 1 = 1 then XI (pos_of_int (i lsr 1)) else XO (pos_of_int (i lsr 1))

let small_n : n array = Array.init 1024 (fun i -> if i = 0 then N0 else Npos (pos_of_int i))

let n_of_int (i : int) : n =
  if i < 0 then fail "negative value %d where N is expected" i
  else if i < 1024 then small_n.(i) else Npos (pos_of_int i)

let z_of_int (i : int) : z = if i = 0 then Z0 else if i > 0 then Zpos (pos_of_int i) else Zneg (pos_of_int (- i))

let nat_of_int (i : int) : nat =
  if i < 0 then fail "negative value %d where nat is expected" i;
  let rec go k acc = if k = 0 then acc else go (k - 1) (S acc) in
  go i O

let int_of_nat (x : nat) : int =
  let rec go x acc = match x with O -> acc | S y -> go y (acc + 1) in
  go x 0

(* ---- token stream over one line *)
type stream = { toks : int array; mutable pos : int; line : int }

let next s =
  if s.pos >= Array.length s.toks then fail "line %d: unexpected end of case" s.line;
  let v = s.toks.(s.pos) in
  s.pos <- s.pos + 1;
  v

let count s =
  let k = next s in
  if k < 0 || k > 1_000_000 then fail "line %d: bad count %d" s.line k;
  k

let rec times k f = if k = 0 then [] else let x = f () in x :: times (k - 1) f
let many s f = let k = count s in times k (fun () -> f s)

let bool_of s = match next s with 0 -> false | 1 -> true | v -> fail "line %d: bad boolean %d" s.line v
let rd_n s = n_of_int (next s)
let rd_z s = z_of_int (next s)
let rd_nat s = nat_of_int (next s)

let action_of s =
  match next s with
  | 0 -> MappingUp | 1 -> MappingDown | 2 -> AMapping | 3 -> OctaveUp | 4 -> OctaveDown | 5 -> SemitoneUp
  | 6 -> SemitoneDown | 7 -> ChannelUp | 8 -> ChannelDown | 9 -> AChannel | 10 -> Multinote | 11 -> Panic
  | 12 -> Learning | 13 -> Exit | 14 -> ANone
  | v -> fail "line %d: bad action %d" s.line v

let cmode_of_tok s =
  match next s with
  | 0 -> COff | 1 -> CNoRepeat | 2 -> CInterrupt | 3 -> CRetrigger
  | v -> fail "line %d: bad collision mode %d" s.line v

let atype_of s =
  match next s with
  | 0 -> ACC | 1 -> APitchBend | 2 -> AKeySim | 3 -> AActionSim | 4 -> AUnknown
  | v -> fail "line %d: bad analog type %d" s.line v

(* the order of the [let]s is the order of the fields in the file *)
let rd_key s =
  let sub = rd_n s in let code = rd_n s in let note = rd_n s in let off = rd_n s in
  ((sub, code), { k_note = note; k_off = off })

let rd_analog s =
  let sub = rd_n s in let code = rd_n s in
  let ty = atype_of s in
  let cc = rd_n s in let ccneg = rd_n s in let note = rd_n s in let noteneg = rd_n s in
  let off = rd_n s in let offneg = rd_n s in
  let act = action_of s in let actneg = action_of s in
  let flip = bool_of s in let bidi = bool_of s in let dzc = bool_of s in
  ((sub, code), { a_type = ty; a_cc = cc; a_ccneg = ccneg; a_note = note; a_noteneg = noteneg; a_off = off;
                  a_offneg = offneg; a_act = act; a_actneg = actneg; a_flip = flip; a_bidi = bidi; a_dzc = dzc })

let rd_mapping s =
  let name = rd_n s in
  let midi = many s rd_key in
  let an = many s rd_analog in
  { m_name = name; m_midi = midi; m_analog = an }

let rd_config s =
  let maps = many s rd_mapping in
  let acts = many s (fun s -> let code = rd_n s in let a = action_of s in (code, a)) in
  let ex = many s rd_n in
  let cm = cmode_of_tok s in
  let oc = rd_z s in let st = rd_z s in let ch = rd_z s in let mp = rd_nat s in let vel = rd_z s in
  { mappings = maps; actions = acts; exitseq = ex; cmode_of = cm; d_octave = oc; d_semitone = st; d_channel = ch;
    d_mapping = mp; d_velocity = vel }

let rd_event s = let sub = rd_n s in let code = rd_n s in let v = rd_z s in EKey (sub, code, v)

let rd_msgs s : msg list = many s (fun s -> many s rd_n)

let rd_ostep s =
  let m = rd_msgs s in
  let sg = rd_nat s in let oc = rd_z s in let st = rd_z s in let ch = rd_n s in let nt = rd_nat s in let mp = rd_n s in
  { o_midi = m; o_sigs = sg; o_oct = oc; o_semi = st; o_ch = ch; o_notes = nt; o_map = mp }

let rd_case s =
  let idx = next s in
  let cfg = rd_config s in
  let evs = many s rd_event in
  let obs = many s rd_ostep in
  let cl = rd_msgs s in
  if s.pos <> Array.length s.toks then fail "line %d: %d trailing tokens" s.line (Array.length s.toks - s.pos);
  (idx, { kc_cfg = cfg; kc_events = evs; kc_obs = obs; kc_cleanup = cl })

(* ---- the monitors of one property: failures, view mismatch, non-triviality (the terms named in lib/cXX.py) *)
let monitors = function
  | "C01" -> (c01_failures, c01_mismatch, (fun _ -> false))
  | "C02" -> (c02_failures, notes_mismatch, (fun _ -> false))
  | "C03" -> (c03_failures, notes_mismatch, c03_has_collision)
  | "C04" -> (c04_failures, c04_mismatch, (fun _ -> false))
  | "C05" -> (c05_failures, c05_mismatch, (fun _ -> false))
  | "C13" -> (c13_failures, c13_mismatch, c13_has_trigger)
  | "C14" -> (c14_failures, c14_mismatch, c14_fired)
  | p -> fail "unknown property %s" p

let ints_of_line lineno (l : string) : int array =
  let n = String.length l in
  let buf = ref [] and cnt = ref 0 in
  let i = ref 0 in
  while !i < n do
    while !i < n && (l.[!i] = ' ' || l.[!i] = '\t' || l.[!i] = '\r') do incr i done;
    if !i < n then begin
      let j = ref !i in
      while !j < n && l.[!j] <> ' ' && l.[!j] <> '\t' && l.[!j] <> '\r' do incr j done;
      (match int_of_string_opt (String.sub l !i (!j - !i)) with
       | Some v -> buf := v :: !buf; incr cnt
       | None -> fail "line %d: not an integer: %s" lineno (String.sub l !i (!j - !i)));
      i := !j
    end
  done;
  let a = Array.make !cnt 0 in
  List.iteri (fun k v -> a.(!cnt - 1 - k) <- v) !buf;
  a

let () =
  if Array.length Sys.argv <> 3 then fail "usage: soak <property> <cases.txt | ->";
  let prop = Sys.argv.(1) in
  let (f_fail, f_mis, f_nt) = monitors prop in
  let ic = if Sys.argv.(2) = "-" then stdin else open_in Sys.argv.(2) in
  let out = Buffer.create 65536 in
  let lineno = ref 0 in
  (try
     while true do
       let l = input_line ic in
       incr lineno;
       if l <> "" && l.[0] <> '#' then begin
         let (idx, k) = rd_case { toks = ints_of_line !lineno l; pos = 0; line = !lineno } in
         let fl = List.map int_of_nat (f_fail k) in
         let mi = f_mis k in
         let nt = f_nt k in
         Buffer.add_string out (string_of_int idx);
         Buffer.add_char out ' ';
         Buffer.add_string out prop;
         Buffer.add_string out " F:";
         Buffer.add_string out (if fl = [] then "-" else String.concat "," (List.map string_of_int fl));
         Buffer.add_string out " M:";
         Buffer.add_string out (match mi with None -> "-" | Some i -> string_of_int (int_of_nat i));
         Buffer.add_string out (if nt then " N:1\n" else " N:0\n");
         if Buffer.length out > 60000 then begin print_string (Buffer.contents out); Buffer.clear out end
       end
     done
   with End_of_file -> ());
  print_string (Buffer.contents out);
  flush stdout
