#!/bin/bash
# Regenerates _CoqProject from the .v files known to git (git add new files first) and the Makefile.
cd "$(dirname "$0")"
(echo "-Q theories HIDI"; echo "-arg -w -arg -notation-overridden,-deprecated-hint-without-locality,-deprecated-instance-without-locality"; git ls-files theories | grep '\.v$' | sort) > _CoqProject
coq_makefile -f _CoqProject -o Makefile >/dev/null
