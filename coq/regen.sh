#!/bin/bash
# Regenerates _CoqProject from the .v files known to git (git add new files first) minus those listed in coq/wip.txt
# (work in progress that must not be built by `make` yet), and regenerates the Makefile.
cd "$(dirname "$0")"
touch wip.txt
(echo "-Q theories HIDI"; echo "-arg -w -arg -notation-overridden,-deprecated-hint-without-locality,-deprecated-instance-without-locality"; git ls-files theories | grep '\.v$' | grep -v -x -F -f wip.txt | sort) > _CoqProject
coq_makefile -f _CoqProject -o Makefile >/dev/null
