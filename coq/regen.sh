#!/bin/bash
cd "$(dirname "$0")"
find theories -name '*.v' | sort > /tmp/vfiles.$$ && (head -2 _CoqProject; cat /tmp/vfiles.$$) > _CoqProject.new && mv _CoqProject.new _CoqProject && rm /tmp/vfiles.$$ && coq_makefile -f _CoqProject -o Makefile >/dev/null
