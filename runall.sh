#!/bin/bash
# Runs every registered check (quick tier by default) on /repo's current tree; prints one line per check.
cd "$(dirname "$0")"
tier=${1:-quick}
git -C /repo status --short | grep -q . && echo "WARNING: /repo working tree is not clean"
for p in $(python3 -c "import json; print(' '.join(c['property_id'] for c in json.load(open('MANIFEST.json'))['checks']))"); do
  s=$(date +%s)
  out=$(./check $p --tier $tier 2>&1); rc=$?
  echo "$p rc=$rc $(( $(date +%s) - s ))s $(echo "$out" | grep -c VIOLATION) violation-lines $(echo "$out" | grep KNOWN-FINDING | cut -c1-80)"
  [ $rc -ne 0 ] && echo "$out" | head -3 | cut -c1-300
done
