#!/bin/bash
# Builds the Coq development (full .vo build). Nothing from /repo is built here; checks rebuild the Go harness per run.
set -e
cd "$(dirname "$0")/coq"
coq_makefile -f _CoqProject -o Makefile > /dev/null
timeout 7200 make -j16
